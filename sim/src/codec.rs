//! Independent codec written from the RFCs; shares no code with smoltcp::wire.
//! Strict decoder (returns the reason a frame is not well-formed) + encoders for stub peers.

use std::fmt;

// ---------------------------------------------------------------------------------------------
// RFC 1071 checksum: plain 16-bit-word loop.

pub fn sum16(data: &[u8], mut acc: u32) -> u32 {
    let mut i = 0;
    while i + 1 < data.len() {
        acc += ((data[i] as u32) << 8) | data[i + 1] as u32;
        if acc > 0xffff_0000 {
            acc = (acc & 0xffff) + (acc >> 16);
        }
        i += 2;
    }
    if i < data.len() {
        acc += (data[i] as u32) << 8;
    }
    acc
}
pub fn fold(mut acc: u32) -> u16 {
    while acc >> 16 != 0 {
        acc = (acc & 0xffff) + (acc >> 16);
    }
    acc as u16
}
/// Internet checksum of data (one's complement of the one's complement sum).
pub fn inet_csum(data: &[u8], init: u32) -> u16 {
    !fold(sum16(data, init))
}
pub fn pseudo(src: &IpAddr, dst: &IpAddr, proto: u8, len: usize) -> u32 {
    let mut acc = 0u32;
    acc = sum16(src.bytes(), acc);
    acc = sum16(dst.bytes(), acc);
    match src {
        IpAddr::V4(_) => {
            acc += proto as u32;
            acc += len as u32 & 0xffff;
        }
        IpAddr::V6(_) => {
            acc += (len as u32) >> 16;
            acc += (len as u32) & 0xffff;
            acc += proto as u32;
        }
    }
    acc
}
/// true iff the region (with pseudo header sum `init`) verifies
pub fn verifies(data: &[u8], init: u32) -> bool {
    fold(sum16(data, init)) == 0xffff
}

// ---------------------------------------------------------------------------------------------

#[derive(Clone, Copy, PartialEq, Eq, PartialOrd, Ord, Hash)]
pub enum IpAddr {
    V4([u8; 4]),
    V6([u8; 16]),
}
impl IpAddr {
    pub fn bytes(&self) -> &[u8] {
        match self {
            IpAddr::V4(b) => b,
            IpAddr::V6(b) => b,
        }
    }
    pub fn is_v4(&self) -> bool {
        matches!(self, IpAddr::V4(_))
    }
    pub fn is_unspecified(&self) -> bool {
        self.bytes().iter().all(|b| *b == 0)
    }
    pub fn is_multicast(&self) -> bool {
        match self {
            IpAddr::V4(b) => b[0] & 0xf0 == 0xe0,
            IpAddr::V6(b) => b[0] == 0xff,
        }
    }
    pub fn is_limited_broadcast(&self) -> bool {
        matches!(self, IpAddr::V4([255, 255, 255, 255]))
    }
    pub fn is_loopback(&self) -> bool {
        match self {
            IpAddr::V4(b) => b[0] == 127,
            IpAddr::V6(b) => b[..15].iter().all(|x| *x == 0) && b[15] == 1,
        }
    }
    pub fn is_link_local_v6(&self) -> bool {
        match self {
            IpAddr::V6(b) => b[0] == 0xfe && b[1] & 0xc0 == 0x80,
            _ => false,
        }
    }
    pub fn v6(&self) -> [u8; 16] {
        match self {
            IpAddr::V6(b) => *b,
            _ => panic!("not v6"),
        }
    }
    pub fn v4(&self) -> [u8; 4] {
        match self {
            IpAddr::V4(b) => *b,
            _ => panic!("not v4"),
        }
    }
    pub fn solicited_node(&self) -> IpAddr {
        let b = self.v6();
        let mut r = [0u8; 16];
        r[0] = 0xff;
        r[1] = 0x02;
        r[11] = 0x01;
        r[12] = 0xff;
        r[13] = b[13];
        r[14] = b[14];
        r[15] = b[15];
        IpAddr::V6(r)
    }
}
impl fmt::Debug for IpAddr {
    fn fmt(&self, f: &mut fmt::Formatter) -> fmt::Result {
        match self {
            IpAddr::V4(b) => write!(f, "{}.{}.{}.{}", b[0], b[1], b[2], b[3]),
            IpAddr::V6(b) => {
                for i in 0..8 {
                    if i > 0 {
                        write!(f, ":")?;
                    }
                    write!(f, "{:x}", ((b[2 * i] as u16) << 8) | b[2 * i + 1] as u16)?;
                }
                Ok(())
            }
        }
    }
}
impl fmt::Display for IpAddr {
    fn fmt(&self, f: &mut fmt::Formatter) -> fmt::Result {
        fmt::Debug::fmt(self, f)
    }
}

#[derive(Clone, Copy, PartialEq, Eq, Debug)]
pub enum Medium {
    Ip,
    Ethernet,
    Ieee802154,
}

pub const ETH_IPV4: u16 = 0x0800;
pub const ETH_ARP: u16 = 0x0806;
pub const ETH_IPV6: u16 = 0x86dd;

pub const P_ICMP: u8 = 1;
pub const P_IGMP: u8 = 2;
pub const P_TCP: u8 = 6;
pub const P_UDP: u8 = 17;
pub const P_ICMP6: u8 = 58;
pub const P_HBH: u8 = 0;
pub const P_V6FRAG: u8 = 44;
pub const P_V6ROUTE: u8 = 43;
pub const P_V6DEST: u8 = 60;
pub const P_NONE: u8 = 59;

pub const F_FIN: u8 = 1;
pub const F_SYN: u8 = 2;
pub const F_RST: u8 = 4;
pub const F_PSH: u8 = 8;
pub const F_ACK: u8 = 16;
pub const F_URG: u8 = 32;

#[derive(Clone, Debug, PartialEq, Eq)]
pub struct Eth {
    pub dst: [u8; 6],
    pub src: [u8; 6],
    pub ethertype: u16,
}
#[derive(Clone, Debug, PartialEq, Eq)]
pub struct Arp {
    pub op: u16,
    pub sha: [u8; 6],
    pub spa: [u8; 4],
    pub tha: [u8; 6],
    pub tpa: [u8; 4],
}
#[derive(Clone, Debug, PartialEq, Eq, Default)]
pub struct V4Info {
    pub ihl: usize,
    pub tos: u8,
    pub total_len: usize,
    pub ident: u16,
    pub df: bool,
    pub mf: bool,
    /// fragment offset in bytes
    pub frag_off: usize,
}
#[derive(Clone, Debug, PartialEq, Eq)]
pub struct Ip {
    pub src: IpAddr,
    pub dst: IpAddr,
    /// upper-layer protocol (after IPv6 extension headers)
    pub proto: u8,
    pub hop: u8,
    pub v4: Option<V4Info>,
    /// IPv6: raw hop-by-hop options area if present
    pub hbh: Option<Vec<u8>>,
    /// upper-layer bytes
    pub payload: Vec<u8>,
    /// length of all IP headers (incl. extension headers)
    pub hdr_len: usize,
}
impl Ip {
    pub fn is_fragment(&self) -> bool {
        self.v4
            .as_ref()
            .map(|v| v.mf || v.frag_off != 0)
            .unwrap_or(false)
    }
}
#[derive(Clone, Debug, PartialEq, Eq, Default)]
pub struct TcpOpts {
    pub mss: Option<u16>,
    pub wscale: Option<u8>,
    pub sack_perm: bool,
    pub sack: Vec<(u32, u32)>,
    pub ts: Option<(u32, u32)>,
}
#[derive(Clone, Debug, PartialEq, Eq, Default)]
pub struct Tcp {
    pub sport: u16,
    pub dport: u16,
    pub seq: u32,
    pub ack: u32,
    pub flags: u8,
    pub win: u16,
    pub urg: u16,
    pub opts: TcpOpts,
    pub payload: Vec<u8>,
    pub hdr_len: usize,
}
impl Tcp {
    pub fn has(&self, f: u8) -> bool {
        self.flags & f != 0
    }
    pub fn seg_len(&self) -> u32 {
        self.payload.len() as u32 + self.has(F_SYN) as u32 + self.has(F_FIN) as u32
    }
    pub fn flag_str(&self) -> String {
        let mut s = String::new();
        for (f, c) in [
            (F_SYN, 'S'),
            (F_FIN, 'F'),
            (F_RST, 'R'),
            (F_PSH, 'P'),
            (F_ACK, '.'),
            (F_URG, 'U'),
        ] {
            if self.has(f) {
                s.push(c);
            }
        }
        s
    }
}
#[derive(Clone, Debug, PartialEq, Eq)]
pub struct Udp {
    pub sport: u16,
    pub dport: u16,
    pub csum: u16,
    pub payload: Vec<u8>,
}
#[derive(Clone, Debug, PartialEq, Eq)]
pub struct Icmp {
    pub typ: u8,
    pub code: u8,
    /// the 4 bytes after the checksum
    pub rest: [u8; 4],
    /// bytes after the 8-byte header
    pub body: Vec<u8>,
}
#[derive(Clone, Debug, PartialEq, Eq)]
pub struct Igmp {
    pub typ: u8,
    pub max_resp: u8,
    pub group: [u8; 4],
}
#[derive(Clone, Debug, PartialEq, Eq)]
pub enum L4 {
    Tcp(Tcp),
    Udp(Udp),
    Icmp4(Icmp),
    Icmp6(Icmp),
    Igmp(Igmp),
    /// an IPv4 fragment: payload not interpreted
    Fragment,
    Other(u8),
}
#[derive(Clone, Debug, PartialEq, Eq)]
pub struct Packet {
    pub eth: Option<Eth>,
    pub arp: Option<Arp>,
    pub ip: Option<Ip>,
    pub l4: Option<L4>,
}
impl Packet {
    pub fn tcp(&self) -> Option<(&Ip, &Tcp)> {
        match (&self.ip, &self.l4) {
            (Some(ip), Some(L4::Tcp(t))) => Some((ip, t)),
            _ => None,
        }
    }
    pub fn udp(&self) -> Option<(&Ip, &Udp)> {
        match (&self.ip, &self.l4) {
            (Some(ip), Some(L4::Udp(t))) => Some((ip, t)),
            _ => None,
        }
    }
    pub fn icmp4(&self) -> Option<(&Ip, &Icmp)> {
        match (&self.ip, &self.l4) {
            (Some(ip), Some(L4::Icmp4(t))) => Some((ip, t)),
            _ => None,
        }
    }
    pub fn icmp6(&self) -> Option<(&Ip, &Icmp)> {
        match (&self.ip, &self.l4) {
            (Some(ip), Some(L4::Icmp6(t))) => Some((ip, t)),
            _ => None,
        }
    }
    pub fn summary(&self) -> String {
        let mut s = String::new();
        if let Some(a) = &self.arp {
            return format!(
                "ARP op={} spa={} tpa={}",
                a.op,
                IpAddr::V4(a.spa),
                IpAddr::V4(a.tpa)
            );
        }
        if let Some(ip) = &self.ip {
            s += &format!("{}>{} ", ip.src, ip.dst);
            if let Some(v) = &ip.v4 {
                if v.mf || v.frag_off != 0 {
                    s += &format!("frag id={} off={} mf={} ", v.ident, v.frag_off, v.mf);
                }
            }
        }
        match &self.l4 {
            Some(L4::Tcp(t)) => {
                s += &format!(
                    "TCP {}>{} [{}] seq={} ack={} win={} len={}",
                    t.sport,
                    t.dport,
                    t.flag_str(),
                    t.seq,
                    t.ack,
                    t.win,
                    t.payload.len()
                );
                if let Some(m) = t.opts.mss {
                    s += &format!(" mss={}", m);
                }
                if let Some(m) = t.opts.wscale {
                    s += &format!(" ws={}", m);
                }
            }
            Some(L4::Udp(u)) => s += &format!("UDP {}>{} len={}", u.sport, u.dport, u.payload.len()),
            Some(L4::Icmp4(i)) => s += &format!("ICMP4 t={} c={} len={}", i.typ, i.code, i.body.len()),
            Some(L4::Icmp6(i)) => s += &format!("ICMP6 t={} c={} len={}", i.typ, i.code, i.body.len()),
            Some(L4::Igmp(i)) => s += &format!("IGMP t={:#x} g={}", i.typ, IpAddr::V4(i.group)),
            Some(L4::Fragment) => s += "fragment",
            Some(L4::Other(p)) => s += &format!("proto={}", p),
            None => {}
        }
        s
    }
}

#[derive(Clone, Copy, PartialEq, Eq, Debug)]
pub enum ErrKind {
    Malformed,
    Checksum,
}
#[derive(Clone, Debug)]
pub struct DecErr {
    pub kind: ErrKind,
    pub layer: &'static str,
    pub msg: String,
}
fn bad<T>(layer: &'static str, msg: impl Into<String>) -> Result<T, DecErr> {
    Err(DecErr {
        kind: ErrKind::Malformed,
        layer,
        msg: msg.into(),
    })
}
fn badsum<T>(layer: &'static str, msg: impl Into<String>) -> Result<T, DecErr> {
    Err(DecErr {
        kind: ErrKind::Checksum,
        layer,
        msg: msg.into(),
    })
}

/// Which checksums the decoder verifies (those the emitting side computes in software).
#[derive(Clone, Copy, Debug)]
pub struct Verify {
    pub ipv4: bool,
    pub tcp: bool,
    pub udp: bool,
    pub icmp4: bool,
    pub icmp6: bool,
    /// accept a zero UDP checksum over IPv4
    pub udp4_zero_ok: bool,
}
impl Verify {
    pub fn all() -> Verify {
        Verify {
            ipv4: true,
            tcp: true,
            udp: true,
            icmp4: true,
            icmp6: true,
            udp4_zero_ok: true,
        }
    }
    pub fn none() -> Verify {
        Verify {
            ipv4: false,
            tcp: false,
            udp: false,
            icmp4: false,
            icmp6: false,
            udp4_zero_ok: true,
        }
    }
}

fn be16(b: &[u8], o: usize) -> u16 {
    ((b[o] as u16) << 8) | b[o + 1] as u16
}
fn be32(b: &[u8], o: usize) -> u32 {
    ((b[o] as u32) << 24) | ((b[o + 1] as u32) << 16) | ((b[o + 2] as u32) << 8) | b[o + 3] as u32
}

pub fn decode_eth(b: &[u8]) -> Result<(Eth, &[u8]), DecErr> {
    if b.len() < 14 {
        return bad("eth", format!("frame of {} bytes shorter than Ethernet header", b.len()));
    }
    let mut dst = [0; 6];
    dst.copy_from_slice(&b[0..6]);
    let mut src = [0; 6];
    src.copy_from_slice(&b[6..12]);
    Ok((
        Eth {
            dst,
            src,
            ethertype: be16(b, 12),
        },
        &b[14..],
    ))
}

pub fn decode_arp(b: &[u8]) -> Result<Arp, DecErr> {
    if b.len() < 28 {
        return bad("arp", "short");
    }
    if be16(b, 0) != 1 || be16(b, 2) != 0x0800 || b[4] != 6 || b[5] != 4 {
        return bad("arp", "htype/ptype/hlen/plen not Ethernet/IPv4");
    }
    let op = be16(b, 6);
    if op != 1 && op != 2 {
        return bad("arp", format!("operation {}", op));
    }
    let mut a = Arp {
        op,
        sha: [0; 6],
        spa: [0; 4],
        tha: [0; 6],
        tpa: [0; 4],
    };
    a.sha.copy_from_slice(&b[8..14]);
    a.spa.copy_from_slice(&b[14..18]);
    a.tha.copy_from_slice(&b[18..24]);
    a.tpa.copy_from_slice(&b[24..28]);
    Ok(a)
}

/// Decode an IPv4 datagram. `exact`: the buffer must be exactly total_len long (true for what a
/// stack emits on Ip medium; Ethernet may pad short frames, smoltcp does not).
pub fn decode_ipv4(b: &[u8], v: &Verify, exact: bool) -> Result<Ip, DecErr> {
    if b.len() < 20 {
        return bad("ipv4", "shorter than minimal header");
    }
    if b[0] >> 4 != 4 {
        return bad("ipv4", "version");
    }
    let ihl = (b[0] & 0xf) as usize * 4;
    if ihl < 20 || ihl > b.len() {
        return bad("ipv4", format!("ihl {}", ihl));
    }
    let total_len = be16(b, 2) as usize;
    if total_len < ihl {
        return bad("ipv4", "total_len < ihl");
    }
    if total_len > b.len() {
        return bad("ipv4", format!("total_len {} > buffer {}", total_len, b.len()));
    }
    if exact && total_len != b.len() {
        return bad("ipv4", format!("total_len {} != frame payload {}", total_len, b.len()));
    }
    let flags = b[6] >> 5;
    if flags & 0b100 != 0 {
        return bad("ipv4", "reserved flag set");
    }
    let df = flags & 0b010 != 0;
    let mf = flags & 0b001 != 0;
    let frag_off = ((be16(b, 6) & 0x1fff) as usize) * 8;
    if v.ipv4 && !verifies(&b[..ihl], 0) {
        return badsum("ipv4", "header checksum does not verify");
    }
    if b[8] == 0 {
        return bad("ipv4", "TTL 0");
    }
    if df && (mf || frag_off != 0) {
        return bad("ipv4", "DF set on a fragment");
    }
    if mf && (total_len - ihl) % 8 != 0 {
        return bad("ipv4", "non-final fragment payload not a multiple of 8");
    }
    if frag_off + (total_len - ihl) > 65535 {
        return bad("ipv4", "fragment beyond 65535");
    }
    let mut src = [0; 4];
    src.copy_from_slice(&b[12..16]);
    let mut dst = [0; 4];
    dst.copy_from_slice(&b[16..20]);
    Ok(Ip {
        src: IpAddr::V4(src),
        dst: IpAddr::V4(dst),
        proto: b[9],
        hop: b[8],
        v4: Some(V4Info {
            ihl,
            tos: b[1],
            total_len,
            ident: be16(b, 4),
            df,
            mf,
            frag_off,
        }),
        hbh: None,
        payload: b[ihl..total_len].to_vec(),
        hdr_len: ihl,
    })
}

/// Check a TLV option area of an IPv6 hop-by-hop / destination options header.
pub fn check_v6_options(opts: &[u8]) -> Result<(), DecErr> {
    let mut i = 0;
    while i < opts.len() {
        if opts[i] == 0 {
            i += 1;
            continue;
        }
        if i + 2 > opts.len() {
            return bad("ipv6-opts", "option header truncated");
        }
        let l = opts[i + 1] as usize;
        if i + 2 + l > opts.len() {
            return bad("ipv6-opts", "option overruns header");
        }
        if opts[i] == 1 && opts[i + 2..i + 2 + l].iter().any(|x| *x != 0) {
            return bad("ipv6-opts", "PadN not zero");
        }
        i += 2 + l;
    }
    Ok(())
}

pub fn decode_ipv6(b: &[u8], exact: bool) -> Result<Ip, DecErr> {
    if b.len() < 40 {
        return bad("ipv6", "shorter than header");
    }
    if b[0] >> 4 != 6 {
        return bad("ipv6", "version");
    }
    let plen = be16(b, 4) as usize;
    if 40 + plen > b.len() {
        return bad("ipv6", format!("payload_len {} > buffer {}", plen, b.len() - 40));
    }
    if exact && 40 + plen != b.len() {
        return bad("ipv6", format!("payload_len {} != actual {}", plen, b.len() - 40));
    }
    let mut src = [0; 16];
    src.copy_from_slice(&b[8..24]);
    let mut dst = [0; 16];
    dst.copy_from_slice(&b[24..40]);
    let end = 40 + plen;
    let mut nh = b[6];
    let mut off = 40;
    let mut hbh = None;
    let mut first = true;
    loop {
        match nh {
            P_HBH | P_V6DEST | P_V6ROUTE => {
                if nh == P_HBH && !first {
                    return bad("ipv6", "hop-by-hop header not first");
                }
                if off + 8 > end {
                    return bad("ipv6", "extension header truncated");
                }
                let l = (b[off + 1] as usize + 1) * 8;
                if off + l > end {
                    return bad("ipv6", "extension header overruns payload");
                }
                if nh != P_V6ROUTE {
                    check_v6_options(&b[off + 2..off + l])?;
                }
                if nh == P_HBH {
                    hbh = Some(b[off + 2..off + l].to_vec());
                }
                nh = b[off];
                off += l;
            }
            _ => break,
        }
        first = false;
    }
    Ok(Ip {
        src: IpAddr::V6(src),
        dst: IpAddr::V6(dst),
        proto: nh,
        hop: b[7],
        v4: None,
        hbh,
        payload: b[off..end].to_vec(),
        hdr_len: off,
    })
}

pub fn decode_tcp(src: &IpAddr, dst: &IpAddr, b: &[u8], verify: bool) -> Result<Tcp, DecErr> {
    if b.len() < 20 {
        return bad("tcp", "shorter than header");
    }
    let doff = (b[12] >> 4) as usize * 4;
    if doff < 20 || doff > b.len() {
        return bad("tcp", format!("data offset {} with {} bytes", doff, b.len()));
    }
    // order matters for the corruption classifier: structure, then checksum, then policy
    if verify && !verifies(b, pseudo(src, dst, P_TCP, b.len())) {
        return badsum("tcp", "checksum does not verify");
    }
    if b[12] & 0x0f != 0 {
        return bad("tcp", "reserved bits set");
    }
    // ECN bits (CWR, ECE) are not used by smoltcp
    if b[13] & 0xc0 != 0 {
        return bad("tcp", "CWR/ECE set");
    }
    let mut t = Tcp {
        sport: be16(b, 0),
        dport: be16(b, 2),
        seq: be32(b, 4),
        ack: be32(b, 8),
        flags: b[13] & 0x3f,
        win: be16(b, 14),
        urg: be16(b, 18),
        opts: TcpOpts::default(),
        payload: b[doff..].to_vec(),
        hdr_len: doff,
    };
    let o = &b[20..doff];
    let mut i = 0;
    while i < o.len() {
        match o[i] {
            0 => {
                if o[i..].iter().any(|x| *x != 0) {
                    return bad("tcp", "non-zero bytes after End-of-Options");
                }
                break;
            }
            1 => i += 1,
            k => {
                if i + 2 > o.len() {
                    return bad("tcp", "option header truncated");
                }
                let l = o[i + 1] as usize;
                if l < 2 || i + l > o.len() {
                    return bad("tcp", format!("option kind {} length {}", k, l));
                }
                let d = &o[i + 2..i + l];
                match k {
                    2 => {
                        if l != 4 {
                            return bad("tcp", "MSS option length");
                        }
                        t.opts.mss = Some(be16(d, 0));
                    }
                    3 => {
                        if l != 3 {
                            return bad("tcp", "WS option length");
                        }
                        t.opts.wscale = Some(d[0]);
                    }
                    4 => {
                        if l != 2 {
                            return bad("tcp", "SACK-permitted length");
                        }
                        t.opts.sack_perm = true;
                    }
                    5 => {
                        if (l - 2) % 8 != 0 || l == 2 {
                            return bad("tcp", "SACK length");
                        }
                        for c in d.chunks(8) {
                            t.opts.sack.push((be32(c, 0), be32(c, 4)));
                        }
                    }
                    8 => {
                        if l != 10 {
                            return bad("tcp", "timestamp length");
                        }
                        t.opts.ts = Some((be32(d, 0), be32(d, 4)));
                    }
                    _ => {}
                }
                i += l;
            }
        }
    }
    if !t.has(F_SYN) && (t.opts.mss.is_some() || t.opts.wscale.is_some() || t.opts.sack_perm) {
        return bad("tcp", "SYN-only option on a non-SYN segment");
    }
    if !t.has(F_ACK) && t.ack != 0 && !t.has(F_RST) {
        // RFC 9293: if ACK is clear the field should be zero (not strictly mandatory)
    }
    Ok(t)
}

pub fn decode_udp(
    src: &IpAddr,
    dst: &IpAddr,
    b: &[u8],
    verify: bool,
    zero_ok_v4: bool,
    exact: bool,
) -> Result<Udp, DecErr> {
    if b.len() < 8 {
        return bad("udp", "shorter than header");
    }
    let l = be16(b, 4) as usize;
    if l < 8 || l > b.len() {
        return bad("udp", format!("length field {} impossible for IP payload {}", l, b.len()));
    }
    if exact && l != b.len() {
        return bad("udp", format!("length field {} != IP payload {}", l, b.len()));
    }
    let b = &b[..l];
    let c = be16(b, 6);
    if verify {
        if c == 0 {
            if !(src.is_v4() && zero_ok_v4) {
                return badsum("udp", "zero checksum not permitted");
            }
        } else if !verifies(b, pseudo(src, dst, P_UDP, b.len())) {
            return badsum("udp", "checksum does not verify");
        }
    }
    Ok(Udp {
        sport: be16(b, 0),
        dport: be16(b, 2),
        csum: c,
        payload: b[8..].to_vec(),
    })
}

pub fn decode_icmp(
    v6: bool,
    src: &IpAddr,
    dst: &IpAddr,
    b: &[u8],
    verify: bool,
) -> Result<Icmp, DecErr> {
    let layer = if v6 { "icmpv6" } else { "icmpv4" };
    if b.len() < 8 {
        if v6 && b.len() >= 4 {
            // some ICMPv6 messages could be 4 bytes + body; all we emit have >= 8
        }
        return bad(layer, "shorter than 8 bytes");
    }
    if verify {
        let init = if v6 { pseudo(src, dst, P_ICMP6, b.len()) } else { 0 };
        if !verifies(b, init) {
            return badsum(layer, "checksum does not verify");
        }
    }
    let mut rest = [0; 4];
    rest.copy_from_slice(&b[4..8]);
    Ok(Icmp {
        typ: b[0],
        code: b[1],
        rest,
        body: b[8..].to_vec(),
    })
}

pub fn decode_igmp(b: &[u8], verify: bool) -> Result<Igmp, DecErr> {
    if b.len() < 8 {
        return bad("igmp", "short");
    }
    if verify && !verifies(&b[..8], 0) {
        return badsum("igmp", "checksum does not verify");
    }
    let mut g = [0; 4];
    g.copy_from_slice(&b[4..8]);
    Ok(Igmp {
        typ: b[0],
        max_resp: b[1],
        group: g,
    })
}

pub fn decode_l4(ip: &Ip, v: &Verify) -> Result<L4, DecErr> {
    decode_l4x(ip, v, true)
}
pub fn decode_l4x(ip: &Ip, v: &Verify, exact: bool) -> Result<L4, DecErr> {
    if ip.is_fragment() {
        return Ok(L4::Fragment);
    }
    let p = &ip.payload;
    Ok(match ip.proto {
        P_TCP => L4::Tcp(decode_tcp(&ip.src, &ip.dst, p, v.tcp)?),
        P_UDP => L4::Udp(decode_udp(&ip.src, &ip.dst, p, v.udp, v.udp4_zero_ok, exact)?),
        P_ICMP if ip.src.is_v4() => L4::Icmp4(decode_icmp(false, &ip.src, &ip.dst, p, v.icmp4)?),
        P_ICMP6 if !ip.src.is_v4() => L4::Icmp6(decode_icmp(true, &ip.src, &ip.dst, p, v.icmp6)?),
        P_IGMP if ip.src.is_v4() => L4::Igmp(decode_igmp(p, true)?),
        x => L4::Other(x),
    })
}

pub fn decode_ip(b: &[u8], v: &Verify, exact: bool) -> Result<Packet, DecErr> {
    if b.is_empty() {
        return bad("ip", "empty");
    }
    let ip = match b[0] >> 4 {
        4 => decode_ipv4(b, v, exact)?,
        6 => decode_ipv6(b, exact)?,
        x => return bad("ip", format!("version {}", x)),
    };
    let l4 = decode_l4(&ip, v)?;
    Ok(Packet {
        eth: None,
        arp: None,
        ip: Some(ip),
        l4: Some(l4),
    })
}

/// Decode a frame of medium Ip or Ethernet (802.15.4 lives in codec6lo).
pub fn decode_frame(medium: Medium, b: &[u8], v: &Verify) -> Result<Packet, DecErr> {
    match medium {
        Medium::Ip => decode_ip(b, v, true),
        Medium::Ethernet => {
            let (eth, rest) = decode_eth(b)?;
            match eth.ethertype {
                ETH_ARP => {
                    let arp = decode_arp(rest)?;
                    if rest.len() != 28 {
                        return bad("arp", "trailing bytes after ARP packet");
                    }
                    Ok(Packet {
                        eth: Some(eth),
                        arp: Some(arp),
                        ip: None,
                        l4: None,
                    })
                }
                ETH_IPV4 | ETH_IPV6 => {
                    if rest.is_empty() {
                        return bad("eth", "no payload");
                    }
                    let ver = rest[0] >> 4;
                    if (eth.ethertype == ETH_IPV4) != (ver == 4) {
                        return bad("eth", "ethertype does not match IP version");
                    }
                    let mut p = decode_ip(rest, v, true)?;
                    p.eth = Some(eth);
                    Ok(p)
                }
                x => bad("eth", format!("unknown ethertype {:#06x}", x)),
            }
        }
        Medium::Ieee802154 => bad("802154", "use codec6lo"),
    }
}

// ---------------------------------------------------------------------------------------------
// Encoders (for stub peers and injectors)

pub fn put16(v: &mut Vec<u8>, x: u16) {
    v.extend_from_slice(&x.to_be_bytes());
}
pub fn put32(v: &mut Vec<u8>, x: u32) {
    v.extend_from_slice(&x.to_be_bytes());
}

pub fn enc_eth(dst: [u8; 6], src: [u8; 6], ethertype: u16, payload: &[u8]) -> Vec<u8> {
    let mut v = Vec::with_capacity(14 + payload.len());
    v.extend_from_slice(&dst);
    v.extend_from_slice(&src);
    put16(&mut v, ethertype);
    v.extend_from_slice(payload);
    v
}
pub fn enc_arp(a: &Arp) -> Vec<u8> {
    let mut v = vec![0, 1, 8, 0, 6, 4];
    put16(&mut v, a.op);
    v.extend_from_slice(&a.sha);
    v.extend_from_slice(&a.spa);
    v.extend_from_slice(&a.tha);
    v.extend_from_slice(&a.tpa);
    v
}
pub struct V4Opts {
    pub ident: u16,
    pub df: bool,
    pub mf: bool,
    pub frag_off: usize,
    pub tos: u8,
}
impl Default for V4Opts {
    fn default() -> Self {
        V4Opts {
            ident: 0,
            df: true,
            mf: false,
            frag_off: 0,
            tos: 0,
        }
    }
}
pub fn enc_ipv4(src: [u8; 4], dst: [u8; 4], proto: u8, ttl: u8, o: &V4Opts, payload: &[u8]) -> Vec<u8> {
    let mut v = Vec::with_capacity(20 + payload.len());
    v.push(0x45);
    v.push(o.tos);
    put16(&mut v, (20 + payload.len()) as u16);
    put16(&mut v, o.ident);
    let fl = ((o.df as u16) << 14) | ((o.mf as u16) << 13) | ((o.frag_off / 8) as u16 & 0x1fff);
    put16(&mut v, fl);
    v.push(ttl);
    v.push(proto);
    put16(&mut v, 0);
    v.extend_from_slice(&src);
    v.extend_from_slice(&dst);
    let c = inet_csum(&v[..20], 0);
    v[10] = (c >> 8) as u8;
    v[11] = c as u8;
    v.extend_from_slice(payload);
    v
}
pub fn enc_ipv6(src: [u8; 16], dst: [u8; 16], nh: u8, hop: u8, payload: &[u8]) -> Vec<u8> {
    let mut v = Vec::with_capacity(40 + payload.len());
    v.extend_from_slice(&[0x60, 0, 0, 0]);
    put16(&mut v, payload.len() as u16);
    v.push(nh);
    v.push(hop);
    v.extend_from_slice(&src);
    v.extend_from_slice(&dst);
    v.extend_from_slice(payload);
    v
}
pub fn enc_ip(src: &IpAddr, dst: &IpAddr, proto: u8, hop: u8, payload: &[u8]) -> Vec<u8> {
    match (src, dst) {
        (IpAddr::V4(s), IpAddr::V4(d)) => enc_ipv4(*s, *d, proto, hop, &V4Opts::default(), payload),
        (IpAddr::V6(s), IpAddr::V6(d)) => enc_ipv6(*s, *d, proto, hop, payload),
        _ => panic!("mixed address families"),
    }
}
pub fn enc_tcp(src: &IpAddr, dst: &IpAddr, t: &Tcp) -> Vec<u8> {
    let mut o = Vec::new();
    if let Some(m) = t.opts.mss {
        o.extend_from_slice(&[2, 4]);
        put16(&mut o, m);
    }
    if let Some(w) = t.opts.wscale {
        o.extend_from_slice(&[3, 3, w, 1]);
    }
    if t.opts.sack_perm {
        o.extend_from_slice(&[4, 2, 1, 1]);
    }
    if let Some((a, b)) = t.opts.ts {
        o.extend_from_slice(&[1, 1, 8, 10]);
        put32(&mut o, a);
        put32(&mut o, b);
    }
    if !t.opts.sack.is_empty() {
        o.extend_from_slice(&[1, 1, 5, (2 + 8 * t.opts.sack.len()) as u8]);
        for (a, b) in &t.opts.sack {
            put32(&mut o, *a);
            put32(&mut o, *b);
        }
    }
    while o.len() % 4 != 0 {
        o.push(0);
    }
    let mut v = Vec::with_capacity(20 + o.len() + t.payload.len());
    put16(&mut v, t.sport);
    put16(&mut v, t.dport);
    put32(&mut v, t.seq);
    put32(&mut v, t.ack);
    v.push((((20 + o.len()) / 4) as u8) << 4);
    v.push(t.flags);
    put16(&mut v, t.win);
    put16(&mut v, 0);
    put16(&mut v, t.urg);
    v.extend_from_slice(&o);
    v.extend_from_slice(&t.payload);
    let c = inet_csum(&v, pseudo(src, dst, P_TCP, v.len()));
    v[16] = (c >> 8) as u8;
    v[17] = c as u8;
    v
}
/// TCP segment with a caller-supplied options area (any bytes; padded with zeros to a multiple of 4 and cut
/// at 40), valid checksum.  For adversarial option lists.
pub fn enc_tcp_raw_opts(src: &IpAddr, dst: &IpAddr, t: &Tcp, raw_opts: &[u8]) -> Vec<u8> {
    let mut o = raw_opts[..raw_opts.len().min(40)].to_vec();
    while o.len() % 4 != 0 {
        o.push(0);
    }
    let mut v = Vec::with_capacity(20 + o.len() + t.payload.len());
    put16(&mut v, t.sport);
    put16(&mut v, t.dport);
    put32(&mut v, t.seq);
    put32(&mut v, t.ack);
    v.push((((20 + o.len()) / 4) as u8) << 4);
    v.push(t.flags);
    put16(&mut v, t.win);
    put16(&mut v, 0);
    put16(&mut v, t.urg);
    v.extend_from_slice(&o);
    v.extend_from_slice(&t.payload);
    let c = inet_csum(&v, pseudo(src, dst, P_TCP, v.len()));
    v[16] = (c >> 8) as u8;
    v[17] = c as u8;
    v
}
pub fn enc_udp(src: &IpAddr, dst: &IpAddr, sport: u16, dport: u16, payload: &[u8]) -> Vec<u8> {
    let mut v = Vec::with_capacity(8 + payload.len());
    put16(&mut v, sport);
    put16(&mut v, dport);
    put16(&mut v, (8 + payload.len()) as u16);
    put16(&mut v, 0);
    v.extend_from_slice(payload);
    let mut c = inet_csum(&v, pseudo(src, dst, P_UDP, v.len()));
    if c == 0 {
        c = 0xffff;
    }
    v[6] = (c >> 8) as u8;
    v[7] = c as u8;
    v
}
pub fn enc_icmp(v6: bool, src: &IpAddr, dst: &IpAddr, typ: u8, code: u8, rest: [u8; 4], body: &[u8]) -> Vec<u8> {
    let mut v = vec![typ, code, 0, 0];
    v.extend_from_slice(&rest);
    v.extend_from_slice(body);
    let init = if v6 { pseudo(src, dst, P_ICMP6, v.len()) } else { 0 };
    let c = inet_csum(&v, init);
    v[2] = (c >> 8) as u8;
    v[3] = c as u8;
    v
}

/// Wrap an IP datagram for the medium (Ethernet header when needed).
pub fn wrap_l2(medium: Medium, dst_mac: [u8; 6], src_mac: [u8; 6], ip: Vec<u8>) -> Vec<u8> {
    match medium {
        Medium::Ip => ip,
        Medium::Ethernet => {
            let et = if ip[0] >> 4 == 4 { ETH_IPV4 } else { ETH_IPV6 };
            enc_eth(dst_mac, src_mac, et, &ip)
        }
        Medium::Ieee802154 => panic!("use codec6lo"),
    }
}

/// Sequence-number comparison helpers (mod 2^32).
pub fn seq_lt(a: u32, b: u32) -> bool {
    (a.wrapping_sub(b) as i32) < 0
}
pub fn seq_le(a: u32, b: u32) -> bool {
    (a.wrapping_sub(b) as i32) <= 0
}
pub fn seq_diff(a: u32, b: u32) -> i64 {
    (a.wrapping_sub(b) as i32) as i64
}
