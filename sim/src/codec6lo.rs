//! IEEE 802.15.4 data frames and 6LoWPAN (RFC 4944 fragmentation, RFC 6282 IPHC / NHC), written
//! from the RFCs, independent of smoltcp::wire.

use crate::codec::*;

#[derive(Clone, Copy, Debug, PartialEq, Eq, PartialOrd, Ord)]
pub enum Addr154 {
    Absent,
    Short([u8; 2]),
    Ext([u8; 8]),
}

impl Addr154 {
    pub fn is_broadcast(&self) -> bool {
        matches!(self, Addr154::Short([0xff, 0xff]))
    }
    /// interface identifier (RFC 4944 s6 / RFC 6282 s3.2.2)
    pub fn iid(&self) -> Option<[u8; 8]> {
        match self {
            Addr154::Ext(e) => {
                let mut i = *e;
                i[0] ^= 0x02;
                Some(i)
            }
            Addr154::Short(s) => Some([0, 0, 0, 0xff, 0xfe, 0, s[0], s[1]]),
            Addr154::Absent => None,
        }
    }
}

#[derive(Clone, Debug, PartialEq, Eq)]
pub struct Frame154 {
    pub frame_type: u8,
    pub security: bool,
    pub pending: bool,
    pub ack_req: bool,
    pub pan_comp: bool,
    pub version: u8,
    pub seq: u8,
    pub dst_pan: Option<u16>,
    pub dst: Addr154,
    pub src_pan: Option<u16>,
    pub src: Addr154,
    pub payload: Vec<u8>,
}

pub fn dec_154(b: &[u8]) -> Result<Frame154, String> {
    if b.len() < 3 {
        return Err("shorter than FCF + sequence number".into());
    }
    let fcf = (b[0] as u16) | ((b[1] as u16) << 8);
    let frame_type = (fcf & 7) as u8;
    let security = fcf & 8 != 0;
    let pending = fcf & 0x10 != 0;
    let ack_req = fcf & 0x20 != 0;
    let pan_comp = fcf & 0x40 != 0;
    let dam = ((fcf >> 10) & 3) as u8;
    let version = ((fcf >> 12) & 3) as u8;
    let sam = ((fcf >> 14) & 3) as u8;
    if dam == 1 || sam == 1 {
        return Err("reserved addressing mode".into());
    }
    let seq = b[2];
    let mut i = 3;
    let take = |i: &mut usize, n: usize| -> Result<Vec<u8>, String> {
        if *i + n > b.len() {
            return Err("addressing fields truncated".into());
        }
        let v = b[*i..*i + n].to_vec();
        *i += n;
        Ok(v)
    };
    let mut dst_pan = None;
    let mut dst = Addr154::Absent;
    if dam != 0 {
        let p = take(&mut i, 2)?;
        dst_pan = Some((p[0] as u16) | ((p[1] as u16) << 8));
        dst = if dam == 2 {
            let a = take(&mut i, 2)?;
            Addr154::Short([a[1], a[0]])
        } else {
            let a = take(&mut i, 8)?;
            let mut e = [0u8; 8];
            for k in 0..8 {
                e[k] = a[7 - k];
            }
            Addr154::Ext(e)
        };
    }
    let mut src_pan = None;
    let mut src = Addr154::Absent;
    if sam != 0 {
        if !pan_comp {
            let p = take(&mut i, 2)?;
            src_pan = Some((p[0] as u16) | ((p[1] as u16) << 8));
        }
        src = if sam == 2 {
            let a = take(&mut i, 2)?;
            Addr154::Short([a[1], a[0]])
        } else {
            let a = take(&mut i, 8)?;
            let mut e = [0u8; 8];
            for k in 0..8 {
                e[k] = a[7 - k];
            }
            Addr154::Ext(e)
        };
    }
    if security {
        return Err("security header not modelled".into());
    }
    Ok(Frame154 { frame_type, security, pending, ack_req, pan_comp, version, seq, dst_pan, dst, src_pan, src, payload: b[i..].to_vec() })
}

pub fn enc_154(f: &Frame154) -> Vec<u8> {
    let am = |a: &Addr154| match a {
        Addr154::Absent => 0u16,
        Addr154::Short(_) => 2,
        Addr154::Ext(_) => 3,
    };
    let fcf: u16 = (f.frame_type as u16 & 7) | ((f.security as u16) << 3) | ((f.pending as u16) << 4) | ((f.ack_req as u16) << 5) | ((f.pan_comp as u16) << 6) | (am(&f.dst) << 10) | ((f.version as u16 & 3) << 12) | (am(&f.src) << 14);
    let mut v = vec![fcf as u8, (fcf >> 8) as u8, f.seq];
    let put_addr = |v: &mut Vec<u8>, a: &Addr154| match a {
        Addr154::Absent => {}
        Addr154::Short(s) => v.extend_from_slice(&[s[1], s[0]]),
        Addr154::Ext(e) => {
            for k in 0..8 {
                v.push(e[7 - k]);
            }
        }
    };
    if f.dst != Addr154::Absent {
        let p = f.dst_pan.unwrap_or(0xffff);
        v.extend_from_slice(&[p as u8, (p >> 8) as u8]);
        put_addr(&mut v, &f.dst);
    }
    if f.src != Addr154::Absent {
        if !f.pan_comp {
            let p = f.src_pan.unwrap_or(0xffff);
            v.extend_from_slice(&[p as u8, (p >> 8) as u8]);
        }
        put_addr(&mut v, &f.src);
    }
    v.extend_from_slice(&f.payload);
    v
}

pub fn data_frame(seq: u8, pan: u16, dst: Addr154, src: Addr154, payload: Vec<u8>) -> Frame154 {
    Frame154 { frame_type: 1, security: false, pending: false, ack_req: false, pan_comp: true, version: 0, seq, dst_pan: Some(pan), dst, src_pan: None, src, payload }
}

// ---------------------------------------------------------------------------------------------
// 6LoWPAN

#[derive(Clone, Debug, PartialEq, Eq)]
pub struct FragHdr {
    pub first: bool,
    pub size: u16,
    pub tag: u16,
    /// offset in bytes of the uncompressed datagram
    pub offset: usize,
}

pub fn dec_frag(b: &[u8]) -> Result<(FragHdr, &[u8]), String> {
    if b.len() < 4 {
        return Err("fragment header truncated".into());
    }
    let first = b[0] & 0xf8 == 0xc0;
    let n = b[0] & 0xf8 == 0xe0;
    if !first && !n {
        return Err("not a fragment dispatch".into());
    }
    let size = (((b[0] & 7) as u16) << 8) | b[1] as u16;
    let tag = ((b[2] as u16) << 8) | b[3] as u16;
    if first {
        Ok((FragHdr { first, size, tag, offset: 0 }, &b[4..]))
    } else {
        if b.len() < 5 {
            return Err("FRAGN header truncated".into());
        }
        Ok((FragHdr { first, size, tag, offset: b[4] as usize * 8 }, &b[5..]))
    }
}
pub fn enc_frag(h: &FragHdr, payload: &[u8]) -> Vec<u8> {
    let d = if h.first { 0xc0u8 } else { 0xe0 };
    let mut v = vec![d | ((h.size >> 8) as u8 & 7), h.size as u8, (h.tag >> 8) as u8, h.tag as u8];
    if !h.first {
        v.push((h.offset / 8) as u8);
    }
    v.extend_from_slice(payload);
    v
}

/// 6LoWPAN address context: (prefix bytes, prefix length in bits)
pub type Ctx6 = Vec<([u8; 16], u8)>;

fn from_iid(prefix: &[u8; 16], plen: u8, iid: &[u8; 8]) -> [u8; 16] {
    let mut a = [0u8; 16];
    a[8..].copy_from_slice(iid);
    // prefix bits override
    let full = (plen / 8) as usize;
    a[..full.min(16)].copy_from_slice(&prefix[..full.min(16)]);
    let rem = plen % 8;
    if rem != 0 && full < 16 {
        let m = 0xffu8 << (8 - rem);
        a[full] = (prefix[full] & m) | (a[full] & !m);
    }
    a
}

const LL: [u8; 16] = [0xfe, 0x80, 0, 0, 0, 0, 0, 0, 0, 0, 0, 0, 0, 0, 0, 0];

/// Result of decompressing the IPHC (+NHC) headers of one frame / first fragment.
pub struct Iphc {
    pub src: [u8; 16],
    pub dst: [u8; 16],
    pub hop: u8,
    pub tf: [u8; 4],
    /// uncompressed bytes following the 40-byte IPv6 header that the compressed headers stand for
    /// (extension headers, UDP header), with length/checksum fields possibly still to be fixed up
    pub hdrs: Vec<u8>,
    pub next_header: u8,
    /// rest of the frame (carried verbatim)
    pub rest: Vec<u8>,
    /// index in hdrs of a UDP header whose length must be patched (and whether the checksum was elided)
    pub udp_at: Option<(usize, bool)>,
    /// number of compressed bytes consumed
    pub consumed: usize,
}

fn nh_of_eid(eid: u8) -> Option<u8> {
    Some(match eid {
        0 => P_HBH,
        1 => P_V6ROUTE,
        2 => P_V6FRAG,
        3 => P_V6DEST,
        4 => 135,
        7 => 41,
        _ => return None,
    })
}

pub fn dec_iphc(b: &[u8], l2src: &Addr154, l2dst: &Addr154, ctx: &Ctx6) -> Result<Iphc, String> {
    if b.len() < 2 {
        return Err("IPHC base header truncated".into());
    }
    if b[0] & 0xe0 != 0x60 {
        return Err("not an IPHC dispatch".into());
    }
    let tf = (b[0] >> 3) & 3;
    let nh = (b[0] >> 2) & 1;
    let hlim = b[0] & 3;
    let cid = b[1] >> 7;
    let sac = (b[1] >> 6) & 1;
    let sam = (b[1] >> 4) & 3;
    let m = (b[1] >> 3) & 1;
    let dac = (b[1] >> 2) & 1;
    let dam = b[1] & 3;
    let mut i = 2;
    let take = |i: &mut usize, n: usize| -> Result<&[u8], String> {
        if *i + n > b.len() {
            return Err("IPHC inline field truncated".into());
        }
        let s = &b[*i..*i + n];
        *i += n;
        Ok(s)
    };
    let (mut sci, mut dci) = (0usize, 0usize);
    if cid == 1 {
        let c = take(&mut i, 1)?[0];
        sci = (c >> 4) as usize;
        dci = (c & 0xf) as usize;
    }
    let mut tfb = [0x60u8, 0, 0, 0];
    match tf {
        0 => {
            let t = take(&mut i, 4)?;
            // ECN(2) DSCP(6) rsv(4) FL(20)
            let ecn = t[0] >> 6;
            let dscp = t[0] & 0x3f;
            let tc = (dscp << 2) | ecn;
            tfb[0] = 0x60 | (tc >> 4);
            tfb[1] = (tc << 4) | (t[1] & 0x0f);
            tfb[2] = t[2];
            tfb[3] = t[3];
        }
        1 => {
            let t = take(&mut i, 3)?;
            let ecn = t[0] >> 6;
            let tc = ecn;
            tfb[0] = 0x60 | (tc >> 4);
            tfb[1] = (tc << 4) | (t[0] & 0x0f);
            tfb[2] = t[1];
            tfb[3] = t[2];
        }
        2 => {
            let t = take(&mut i, 1)?;
            let ecn = t[0] >> 6;
            let dscp = t[0] & 0x3f;
            let tc = (dscp << 2) | ecn;
            tfb[0] = 0x60 | (tc >> 4);
            tfb[1] = tc << 4;
        }
        _ => {}
    }
    let mut next_header = 0u8;
    if nh == 0 {
        next_header = take(&mut i, 1)?[0];
    }
    let hop = match hlim {
        0 => take(&mut i, 1)?[0],
        1 => 1,
        2 => 64,
        _ => 255,
    };
    let ctx_of = |ci: usize| -> Result<([u8; 16], u8), String> { ctx.get(ci).copied().ok_or_else(|| format!("unknown context {}", ci)) };
    // source
    let src: [u8; 16] = if sac == 0 {
        match sam {
            0 => take(&mut i, 16)?.try_into().unwrap(),
            1 => {
                let t: [u8; 8] = take(&mut i, 8)?.try_into().unwrap();
                from_iid(&LL, 64, &t)
            }
            2 => {
                let t = take(&mut i, 2)?;
                from_iid(&LL, 64, &[0, 0, 0, 0xff, 0xfe, 0, t[0], t[1]])
            }
            _ => from_iid(&LL, 64, &l2src.iid().ok_or("source elided but no link-layer source")?),
        }
    } else {
        match sam {
            0 => [0u8; 16],
            1 => {
                let t: [u8; 8] = take(&mut i, 8)?.try_into().unwrap();
                let (p, l) = ctx_of(sci)?;
                from_iid(&p, l, &t)
            }
            2 => {
                let t = take(&mut i, 2)?;
                let (p, l) = ctx_of(sci)?;
                from_iid(&p, l, &[0, 0, 0, 0xff, 0xfe, 0, t[0], t[1]])
            }
            _ => {
                let (p, l) = ctx_of(sci)?;
                from_iid(&p, l, &l2src.iid().ok_or("source elided but no link-layer source")?)
            }
        }
    };
    let dst: [u8; 16] = if m == 0 {
        if dac == 0 {
            match dam {
                0 => take(&mut i, 16)?.try_into().unwrap(),
                1 => {
                    let t: [u8; 8] = take(&mut i, 8)?.try_into().unwrap();
                    from_iid(&LL, 64, &t)
                }
                2 => {
                    let t = take(&mut i, 2)?;
                    from_iid(&LL, 64, &[0, 0, 0, 0xff, 0xfe, 0, t[0], t[1]])
                }
                _ => from_iid(&LL, 64, &l2dst.iid().ok_or("destination elided but no link-layer destination")?),
            }
        } else {
            match dam {
                0 => return Err("reserved DAM with DAC=1".into()),
                1 => {
                    let t: [u8; 8] = take(&mut i, 8)?.try_into().unwrap();
                    let (p, l) = ctx_of(dci)?;
                    from_iid(&p, l, &t)
                }
                2 => {
                    let t = take(&mut i, 2)?;
                    let (p, l) = ctx_of(dci)?;
                    from_iid(&p, l, &[0, 0, 0, 0xff, 0xfe, 0, t[0], t[1]])
                }
                _ => {
                    let (p, l) = ctx_of(dci)?;
                    from_iid(&p, l, &l2dst.iid().ok_or("destination elided but no link-layer destination")?)
                }
            }
        }
    } else if dac == 0 {
        match dam {
            0 => take(&mut i, 16)?.try_into().unwrap(),
            1 => {
                let t = take(&mut i, 6)?;
                let mut a = [0u8; 16];
                a[0] = 0xff;
                a[1] = t[0];
                a[11..16].copy_from_slice(&t[1..6]);
                a
            }
            2 => {
                let t = take(&mut i, 4)?;
                let mut a = [0u8; 16];
                a[0] = 0xff;
                a[1] = t[0];
                a[13..16].copy_from_slice(&t[1..4]);
                a
            }
            _ => {
                let t = take(&mut i, 1)?;
                let mut a = [0u8; 16];
                a[0] = 0xff;
                a[1] = 0x02;
                a[15] = t[0];
                a
            }
        }
    } else {
        return Err("context-based multicast not modelled".into());
    };
    // next headers (NHC)
    let mut hdrs: Vec<u8> = vec![];
    let mut udp_at = None;
    if nh == 1 {
        let mut first = true;
        loop {
            if i >= b.len() {
                return Err("NHC header missing".into());
            }
            let d = b[i];
            if d & 0xf8 == 0xf0 {
                // UDP
                let c = (d >> 2) & 1;
                let p = d & 3;
                i += 1;
                let (sp, dp) = match p {
                    0 => {
                        let t = take(&mut i, 4)?;
                        (((t[0] as u16) << 8) | t[1] as u16, ((t[2] as u16) << 8) | t[3] as u16)
                    }
                    1 => {
                        let t = take(&mut i, 3)?;
                        (((t[0] as u16) << 8) | t[1] as u16, 0xf000 | t[2] as u16)
                    }
                    2 => {
                        let t = take(&mut i, 3)?;
                        (0xf000 | t[0] as u16, ((t[1] as u16) << 8) | t[2] as u16)
                    }
                    _ => {
                        let t = take(&mut i, 1)?;
                        (0xf0b0 | (t[0] >> 4) as u16, 0xf0b0 | (t[0] & 0xf) as u16)
                    }
                };
                let csum = if c == 0 {
                    let t = take(&mut i, 2)?;
                    ((t[0] as u16) << 8) | t[1] as u16
                } else {
                    0
                };
                if first {
                    next_header = P_UDP;
                } else {
                    patch_last_nh(&mut hdrs, P_UDP);
                }
                udp_at = Some((hdrs.len(), c == 1));
                put16(&mut hdrs, sp);
                put16(&mut hdrs, dp);
                put16(&mut hdrs, 0);
                put16(&mut hdrs, csum);
                break;
            } else if d & 0xf0 == 0xe0 {
                let eid = (d >> 1) & 7;
                let nhb = d & 1;
                i += 1;
                let this = nh_of_eid(eid).ok_or("reserved EID")?;
                if first {
                    next_header = this;
                } else {
                    patch_last_nh(&mut hdrs, this);
                }
                let mut inner_nh = 0u8;
                if nhb == 0 {
                    inner_nh = take(&mut i, 1)?[0];
                }
                let len = take(&mut i, 1)?[0] as usize;
                let data = take(&mut i, len)?.to_vec();
                // uncompressed: NH, HdrExtLen, data, padded to 8
                let total = 2 + len;
                let padded = (total + 7) / 8 * 8;
                hdrs.push(inner_nh);
                hdrs.push((padded / 8 - 1) as u8);
                hdrs.extend_from_slice(&data);
                let pad = padded - total;
                if pad == 1 {
                    hdrs.push(0);
                } else if pad > 1 {
                    hdrs.push(1);
                    hdrs.push((pad - 2) as u8);
                    for _ in 0..pad - 2 {
                        hdrs.push(0);
                    }
                }
                first = false;
                if nhb == 0 {
                    break;
                }
            } else {
                return Err(format!("unknown NHC dispatch {:#04x}", d));
            }
        }
    }
    Ok(Iphc { src, dst, hop, tf: tfb, hdrs, next_header, rest: b[i..].to_vec(), udp_at, consumed: i })
}

fn patch_last_nh(hdrs: &mut [u8], nh: u8) {
    // the most recent extension header starts at the last 8-aligned block whose first byte is its NH;
    // walk the chain from the start
    let mut off = 0;
    let mut last = None;
    while off + 2 <= hdrs.len() {
        last = Some(off);
        off += (hdrs[off + 1] as usize + 1) * 8;
    }
    if let Some(o) = last {
        hdrs[o] = nh;
    }
}

/// Build the complete IPv6 datagram from a decompressed header set, for an unfragmented frame
/// (total = None) or given the datagram size of the fragment header.
pub fn assemble_ipv6(h: &Iphc, total: Option<usize>) -> Vec<u8> {
    let mut hdrs = h.hdrs.clone();
    let plen = match total {
        Some(t) => t.saturating_sub(40),
        None => hdrs.len() + h.rest.len(),
    };
    if let Some((at, elided)) = h.udp_at {
        let ulen = plen - at;
        hdrs[at + 4] = (ulen >> 8) as u8;
        hdrs[at + 5] = ulen as u8;
        let _ = elided;
    }
    let mut v = Vec::with_capacity(40 + plen);
    v.extend_from_slice(&h.tf);
    put16(&mut v, plen as u16);
    v.push(h.next_header);
    v.push(h.hop);
    v.extend_from_slice(&h.src);
    v.extend_from_slice(&h.dst);
    v.extend_from_slice(&hdrs);
    v.extend_from_slice(&h.rest);
    v
}

// ---------------------------------------------------------------------------------------------
// Encoders (stub peers / injectors)

#[derive(Clone, Copy, Debug, Default)]
pub struct IphcOpts {
    /// 0..3 (3 = elided; others carry zeros)
    pub tf: u8,
    /// try to use this source address mode (0 inline, 1 64-bit, 2 16-bit, 3 elided); falls back to 0
    pub sam: u8,
    pub dam: u8,
    /// inline hop limit even when 1/64/255
    pub hlim_inline: bool,
    /// compress a UDP header with NHC (ports mode chosen automatically unless forced)
    pub nhc_udp: bool,
    pub udp_elide_checksum: bool,
}

/// Compress an IPv6 datagram (40-byte header + payload) into IPHC. Only encodings that are always
/// valid for the given addresses are produced (falls back to inline).
pub fn enc_iphc(ipv6: &[u8], l2src: &Addr154, l2dst: &Addr154, o: &IphcOpts) -> Vec<u8> {
    let src: [u8; 16] = ipv6[8..24].try_into().unwrap();
    let dst: [u8; 16] = ipv6[24..40].try_into().unwrap();
    let nh = ipv6[6];
    let hop = ipv6[7];
    let payload = &ipv6[40..];
    let use_nhc = o.nhc_udp && nh == P_UDP && payload.len() >= 8;
    let mut b0 = 0x60u8 | ((o.tf & 3) << 3);
    if use_nhc {
        b0 |= 4;
    }
    let hl = if o.hlim_inline {
        0
    } else {
        match hop {
            1 => 1,
            64 => 2,
            255 => 3,
            _ => 0,
        }
    };
    b0 |= hl;
    let mut inline: Vec<u8> = vec![];
    match o.tf & 3 {
        0 => inline.extend_from_slice(&[0, 0, 0, 0]),
        1 => inline.extend_from_slice(&[0, 0, 0]),
        2 => inline.push(0),
        _ => {}
    }
    if !use_nhc {
        inline.push(nh);
    }
    if hl == 0 {
        inline.push(hop);
    }
    let is_ll = |a: &[u8; 16]| a[0] == 0xfe && a[1] == 0x80 && a[2..8].iter().all(|x| *x == 0);
    let addr_mode = |a: &[u8; 16], want: u8, l2: &Addr154| -> (u8, Vec<u8>) {
        if is_ll(a) {
            let iid: [u8; 8] = a[8..16].try_into().unwrap();
            if want == 3 && l2.iid() == Some(iid) {
                return (3, vec![]);
            }
            if want >= 2 && iid[..6] == [0, 0, 0, 0xff, 0xfe, 0] {
                return (2, iid[6..8].to_vec());
            }
            if want >= 1 {
                return (1, iid.to_vec());
            }
        }
        (0, a.to_vec())
    };
    let (sam, sb) = addr_mode(&src, o.sam, l2src);
    let mut b1 = sam << 4;
    let db: Vec<u8>;
    if dst[0] == 0xff {
        b1 |= 8;
        let dam;
        if o.dam == 3 && dst[1] == 0x02 && dst[2..15].iter().all(|x| *x == 0) {
            dam = 3;
            db = vec![dst[15]];
        } else if o.dam >= 2 && dst[2..13].iter().all(|x| *x == 0) {
            dam = 2;
            db = vec![dst[1], dst[13], dst[14], dst[15]];
        } else if o.dam >= 1 && dst[2..11].iter().all(|x| *x == 0) {
            dam = 1;
            db = vec![dst[1], dst[11], dst[12], dst[13], dst[14], dst[15]];
        } else {
            dam = 0;
            db = dst.to_vec();
        }
        b1 |= dam;
    } else {
        let (dam, d) = addr_mode(&dst, o.dam, l2dst);
        b1 |= dam;
        db = d;
    }
    let mut v = vec![b0, b1];
    v.extend_from_slice(&inline);
    v.extend_from_slice(&sb);
    v.extend_from_slice(&db);
    if use_nhc {
        let sp = ((payload[0] as u16) << 8) | payload[1] as u16;
        let dp = ((payload[2] as u16) << 8) | payload[3] as u16;
        let mut d = 0xf0u8;
        if o.udp_elide_checksum {
            d |= 4;
        }
        let mut pb: Vec<u8> = vec![];
        if sp & 0xfff0 == 0xf0b0 && dp & 0xfff0 == 0xf0b0 {
            d |= 3;
            pb.push((((sp & 0xf) as u8) << 4) | (dp & 0xf) as u8);
        } else if dp & 0xff00 == 0xf000 {
            d |= 1;
            put16(&mut pb, sp);
            pb.push(dp as u8);
        } else if sp & 0xff00 == 0xf000 {
            d |= 2;
            pb.push(sp as u8);
            put16(&mut pb, dp);
        } else {
            put16(&mut pb, sp);
            put16(&mut pb, dp);
        }
        v.push(d);
        v.extend_from_slice(&pb);
        if !o.udp_elide_checksum {
            v.extend_from_slice(&payload[6..8]);
        }
        v.extend_from_slice(&payload[8..]);
    } else {
        v.extend_from_slice(payload);
    }
    v
}

/// Decode a complete (unfragmented) 802.15.4 + 6LoWPAN frame into an IPv6 Packet.
pub fn decode_frame_154(b: &[u8], ctx: &Ctx6, v: &Verify) -> Result<(Frame154, Option<Packet>, Option<FragHdr>), DecErr> {
    let mal = |layer: &'static str, m: String| DecErr { kind: ErrKind::Malformed, layer, msg: m };
    let f = dec_154(b).map_err(|e| mal("802154", e))?;
    if f.frame_type != 1 {
        return Ok((f, None, None));
    }
    if f.payload.is_empty() {
        return Err(mal("6lowpan", "empty payload".into()));
    }
    let d = f.payload[0];
    if d & 0xf8 == 0xc0 || d & 0xf8 == 0xe0 {
        let (h, _rest) = dec_frag(&f.payload).map_err(|e| mal("6lowpan-frag", e))?;
        return Ok((f, None, Some(h)));
    }
    if d & 0xe0 != 0x60 {
        return Err(mal("6lowpan", format!("unsupported dispatch {:#04x}", d)));
    }
    let h = dec_iphc(&f.payload, &f.src, &f.dst, ctx).map_err(|e| mal("iphc", e))?;
    let ip6 = assemble_ipv6(&h, None);
    let mut vv = *v;
    if h.udp_at.map(|x| x.1).unwrap_or(false) {
        vv.udp = false;
    }
    let p = decode_ip(&ip6, &vv, true)?;
    Ok((f, Some(p), None))
}
