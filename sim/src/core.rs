//! Shared types: violations, statistics, panic capture, the Node wrapper around a real smoltcp
//! interface, property set.

use crate::device::SimDevice;
use crate::tape::LogHash;
use smoltcp::iface::{Interface, SocketSet};
use smoltcp::time::Instant;
use std::cell::RefCell;
use std::collections::BTreeMap;
use std::panic::{catch_unwind, AssertUnwindSafe};
use std::sync::atomic::{AtomicI64, AtomicU64, Ordering};

#[derive(Clone, Debug)]
pub struct Violation {
    pub prop: &'static str,
    pub oracle: &'static str,
    /// history-derived signature (never the seed) used to recognise "the same finding"
    pub sig: String,
    pub detail: String,
}

pub fn viol(prop: &'static str, oracle: &'static str, sig: impl Into<String>, detail: impl Into<String>) -> Violation {
    Violation {
        prop,
        oracle,
        sig: sig.into(),
        detail: detail.into(),
    }
}

#[derive(Default, Clone)]
pub struct Stats {
    pub c: BTreeMap<&'static str, u64>,
    /// state-coverage tuples visited (scenario-defined encoding)
    pub cov: std::collections::BTreeSet<u64>,
}
impl Stats {
    pub fn inc(&mut self, k: &'static str) {
        *self.c.entry(k).or_insert(0) += 1;
    }
    pub fn add(&mut self, k: &'static str, n: u64) {
        *self.c.entry(k).or_insert(0) += n;
    }
    pub fn get(&self, k: &str) -> u64 {
        self.c.get(k).copied().unwrap_or(0)
    }
    pub fn merge(&mut self, o: &Stats) {
        for (k, v) in &o.c {
            *self.c.entry(k).or_insert(0) += v;
        }
        for k in &o.cov {
            self.cov.insert(*k);
        }
    }
    pub fn cover(&mut self, k: u64) {
        self.cov.insert(k);
    }
}

/// Bit set of properties whose oracles are enabled in a run.
#[derive(Clone, Copy, Debug, PartialEq, Eq)]
pub struct Props(pub u32);
impl Props {
    pub fn of(ids: &[&str]) -> Props {
        let mut p = 0;
        for id in ids {
            p |= 1 << Self::idx(id);
        }
        Props(p)
    }
    pub fn idx(id: &str) -> u32 {
        id[1..].parse::<u32>().expect("property id")
    }
    pub fn has(&self, id: &str) -> bool {
        self.0 & (1 << Self::idx(id)) != 0
    }
    pub fn all() -> Props {
        Props(u32::MAX)
    }
}

pub struct Outcome {
    pub viol: Option<Violation>,
    pub stats: Stats,
    pub hash: LogHash,
    pub nontrivial: bool,
    pub trace: Vec<String>,
    pub sim_us: i64,
    pub events: u64,
    pub cfg_desc: String,
}

// ---------------------------------------------------------------------------------------------
// Panic capture

thread_local! {
    /// true while a call into the library is running under guard(); a panic outside is a harness bug
    pub static IN_GUARD: std::cell::Cell<bool> = const { std::cell::Cell::new(false) };
    static LAST_PANIC: RefCell<Option<(String, String)>> = const { RefCell::new(None) };
    /// simulated clock in ms readable by the TCP timestamp generator (a plain fn pointer)
    pub static SIM_MS: std::cell::Cell<u32> = const { std::cell::Cell::new(0) };
}

pub fn install_panic_hook() {
    std::panic::set_hook(Box::new(|info| {
        let loc = info
            .location()
            .map(|l| l.file().to_string())
            .unwrap_or_else(|| "?".into());
        let msg = if let Some(s) = info.payload().downcast_ref::<&str>() {
            s.to_string()
        } else if let Some(s) = info.payload().downcast_ref::<String>() {
            s.clone()
        } else {
            "?".to_string()
        };
        let line = info.location().map(|l| l.line()).unwrap_or(0);
        if !IN_GUARD.with(|g| g.get()) {
            eprintln!("harness error: panic outside the library: {} at {}:{}", msg, loc, line);
        }
        LAST_PANIC.with(|p| *p.borrow_mut() = Some((loc, format!("{} (line {})", msg, line))));
    }));
}

pub fn tsval_gen() -> u32 {
    SIM_MS.with(|c| c.get())
}

/// Watchdog slots: each worker publishes a stamp that is unique to the library call it is in (0 = not in a call).
/// The watchdog counts its own 500 ms ticks during which a slot keeps showing the same stamp - no wall clock is
/// compared, so a clock step or a pause of the whole machine (a snapshot of the VM, say) is not taken for a hang.
pub static WATCH: [AtomicI64; 64] = [const { AtomicI64::new(0) }; 64];
pub static WATCH_RUN: [AtomicU64; 64] = [const { AtomicU64::new(0) }; 64];
pub static WATCH_IDX: [AtomicU64; 64] = [const { AtomicU64::new(0) }; 64];
thread_local! {
    pub static WORKER: std::cell::Cell<usize> = const { std::cell::Cell::new(63) };
    static CALL_NO: std::cell::Cell<i64> = const { std::cell::Cell::new(0) };
}
pub fn wall_ms() -> i64 {
    use std::time::{SystemTime, UNIX_EPOCH};
    SystemTime::now().duration_since(UNIX_EPOCH).map(|d| d.as_millis() as i64).unwrap_or(0)
}

/// Run a call into the library: catches unwinding, feeds the watchdog.
pub fn guard<R>(what: &'static str, f: impl FnOnce() -> R) -> Result<R, Violation> {
    let w = WORKER.with(|c| c.get());
    let stamp = CALL_NO.with(|c| {
        let n = c.get().wrapping_add(1).max(1);
        c.set(n);
        n
    });
    WATCH[w].store(stamp, Ordering::Relaxed);
    let was = IN_GUARD.with(|g| g.replace(true));
    let r = catch_unwind(AssertUnwindSafe(f));
    IN_GUARD.with(|g| g.set(was));
    WATCH[w].store(0, Ordering::Relaxed);
    match r {
        Ok(v) => Ok(v),
        Err(_) => {
            let (file, msg) = LAST_PANIC
                .with(|p| p.borrow_mut().take())
                .unwrap_or(("?".into(), "?".into()));
            // signature: file + message without numbers (no line numbers, no values)
            let clean: String = msg
                .split(" (line ")
                .next()
                .unwrap_or("")
                .chars()
                .filter(|c| !c.is_ascii_digit())
                .take(60)
                .collect();
            let file_short = file.rsplit("/src/").next().unwrap_or(&file).to_string();
            Err(viol(
                "C03",
                "no-unwind",
                format!("panic@{}:{}", file_short, clean.trim()),
                format!("panic inside {}: {} at {}", what, msg, file),
            ))
        }
    }
}

// ---------------------------------------------------------------------------------------------

pub struct Node {
    pub iface: Interface,
    pub sockets: SocketSet<'static>,
    pub dev: SimDevice,
    pub name: char,
}

pub fn inst(us: i64) -> Instant {
    Instant::from_micros(us)
}

#[derive(Default, Debug, Clone)]
pub struct PollInfo {
    pub rx_consumed: u64,
    pub refused: u64,
    pub tx: Vec<Vec<u8>>,
}

impl Node {
    pub fn set_clock(now_us: i64) {
        SIM_MS.with(|c| c.set((now_us / 1000) as u32));
    }
    /// Full poll at `now`.
    pub fn poll(&mut self, now_us: i64) -> Result<PollInfo, Violation> {
        Self::set_clock(now_us);
        self.dev.refused = 0;
        self.dev.rx_consumed = 0;
        let (iface, dev, sockets) = (&mut self.iface, &mut self.dev, &mut self.sockets);
        guard("Interface::poll", || {
            iface.poll(inst(now_us), dev, sockets);
        })?;
        if self.dev.runaway {
            // reported like a panic or a call that does not return: whatever the running property promises about
            // this run, a stack that transmits without end within one call does not deliver it
            self.dev.runaway = false;
            let n = self.dev.tx.len();
            self.dev.tx.clear();
            return Err(viol("C03", "no-unwind", "runaway@Interface::poll:transmit ring filled within one call", format!("one call into the interface at t={} us emitted {} frames and was still asking for transmit buffers", now_us, n)));
        }
        Ok(PollInfo {
            rx_consumed: self.dev.rx_consumed,
            refused: self.dev.refused,
            tx: std::mem::take(&mut self.dev.tx),
        })
    }
    pub fn poll_ingress_single(&mut self, now_us: i64) -> Result<PollInfo, Violation> {
        Self::set_clock(now_us);
        self.dev.refused = 0;
        self.dev.rx_consumed = 0;
        let (iface, dev, sockets) = (&mut self.iface, &mut self.dev, &mut self.sockets);
        guard("Interface::poll_ingress_single", || {
            iface.poll_ingress_single(inst(now_us), dev, sockets);
        })?;
        if self.dev.runaway {
            // reported like a panic or a call that does not return: whatever the running property promises about
            // this run, a stack that transmits without end within one call does not deliver it
            self.dev.runaway = false;
            let n = self.dev.tx.len();
            self.dev.tx.clear();
            return Err(viol("C03", "no-unwind", "runaway@Interface::poll:transmit ring filled within one call", format!("one call into the interface at t={} us emitted {} frames and was still asking for transmit buffers", now_us, n)));
        }
        Ok(PollInfo {
            rx_consumed: self.dev.rx_consumed,
            refused: self.dev.refused,
            tx: std::mem::take(&mut self.dev.tx),
        })
    }
    pub fn poll_egress(&mut self, now_us: i64) -> Result<PollInfo, Violation> {
        Self::set_clock(now_us);
        self.dev.refused = 0;
        self.dev.rx_consumed = 0;
        let (iface, dev, sockets) = (&mut self.iface, &mut self.dev, &mut self.sockets);
        guard("Interface::poll_egress", || {
            // poll_egress performs bounded work per call; loop like Interface::poll does
            let mut n = 0;
            loop {
                match iface.poll_egress(inst(now_us), dev, sockets) {
                    smoltcp::iface::PollResult::None => break,
                    smoltcp::iface::PollResult::SocketStateChanged => {}
                }
                n += 1;
                if n > 10_000 {
                    break;
                }
            }
        })?;
        if self.dev.runaway {
            // reported like a panic or a call that does not return: whatever the running property promises about
            // this run, a stack that transmits without end within one call does not deliver it
            self.dev.runaway = false;
            let n = self.dev.tx.len();
            self.dev.tx.clear();
            return Err(viol("C03", "no-unwind", "runaway@Interface::poll:transmit ring filled within one call", format!("one call into the interface at t={} us emitted {} frames and was still asking for transmit buffers", now_us, n)));
        }
        Ok(PollInfo {
            rx_consumed: 0,
            refused: self.dev.refused,
            tx: std::mem::take(&mut self.dev.tx),
        })
    }
    pub fn poll_at(&mut self, now_us: i64) -> Result<Option<i64>, Violation> {
        Self::set_clock(now_us);
        let (iface, sockets) = (&mut self.iface, &self.sockets);
        let at = guard("Interface::poll_at", || iface.poll_at(inst(now_us), sockets).map(|i| i.total_micros()))?;
        // poll_delay is the same schedule seen from `now`: the distance to that instant, zero when it is not later
        let delay = guard("Interface::poll_delay", || iface.poll_delay(inst(now_us), sockets).map(|d| d.total_micros() as i64))?;
        let expect = at.map(|t| (t - now_us).max(0));
        if delay != expect {
            return Err(viol("C13", "poll_delay", "C13.poll_delay-disagrees-with-poll_at", format!("at t={}us poll_at returns {:?} but poll_delay returns {:?} (expected {:?})", now_us, at, delay, expect)));
        }
        Ok(at)
    }
}

/// Build-time configuration of the stack under test (`SMOLTCP_*` environment variables consumed by
/// /repo/build.rs); the harness is built in a separate target directory per variant, with the same variables.
pub fn cfg_value(name: &str, default: usize) -> usize {
    let v = match name {
        "DNS_MAX_SERVER_COUNT" => option_env!("SMOLTCP_DNS_MAX_SERVER_COUNT"),
        "REASSEMBLY_BUFFER_COUNT" => option_env!("SMOLTCP_REASSEMBLY_BUFFER_COUNT"),
        "IFACE_NEIGHBOR_CACHE_COUNT" => option_env!("SMOLTCP_IFACE_NEIGHBOR_CACHE_COUNT"),
        "IFACE_MAX_ADDR_COUNT" => option_env!("SMOLTCP_IFACE_MAX_ADDR_COUNT"),
        _ => None,
    };
    v.and_then(|x| x.parse().ok()).unwrap_or(default)
}

pub fn build_variant() -> &'static str {
    if option_env!("SMOLTCP_DNS_MAX_SERVER_COUNT").is_some() {
        "wide (SMOLTCP_* overrides: more addresses, DNS servers and results, reassembly slots, assembler segments; 3 neighbour-cache slots)"
    } else {
        "shipped (all SMOLTCP_* defaults)"
    }
}
