//! SimDevice: the phy::Device seam. Frames in, frames out, refusal of transmit(), dirty buffers.

use smoltcp::phy::{self, ChecksumCapabilities, DeviceCapabilities, Medium};
use smoltcp::time::Instant;
use std::collections::VecDeque;

#[derive(Clone, Copy, PartialEq, Eq, Debug)]
pub enum Fill {
    Zero,
    Ones,
    Garbage(u64),
}

pub struct SimDevice {
    /// the stack filled the (very large) transmit ring within a single call: it is emitting without end
    pub runaway: bool,
    pub rx: VecDeque<Vec<u8>>,
    pub tx: Vec<Vec<u8>>,
    pub medium: Medium,
    pub mtu: usize,
    pub checksum: ChecksumCapabilities,
    pub max_burst: Option<usize>,
    /// tokens left in this poll for transmit(); None = unlimited
    pub tx_budget: Option<usize>,
    /// number of transmit()/receive() calls that were refused since last reset
    pub refused: u64,
    /// number of tx tokens handed out (consumed or not)
    pub tokens: u64,
    pub fill: Fill,
    fill_ctr: u64,
    /// rx frames consumed since last reset
    pub rx_consumed: u64,
}

impl SimDevice {
    pub fn new(medium: Medium, mtu: usize) -> SimDevice {
        SimDevice {
            runaway: false,
            rx: VecDeque::new(),
            tx: Vec::new(),
            medium,
            mtu,
            checksum: ChecksumCapabilities::default(),
            max_burst: None,
            tx_budget: None,
            refused: 0,
            tokens: 0,
            fill: Fill::Zero,
            fill_ctr: 0,
            rx_consumed: 0,
        }
    }
    /// A token is available iff the tx ring has a free slot; the slot is only used up when the
    /// token is consumed.
    fn take_budget(&mut self) -> bool {
        // no real transmit ring is unbounded: after 40 000 frames within one poll (the most a configuration here can legitimately emit in one go is 262144 octets in 16-octet segments) the device is full (a stack that
        // keeps emitting without end is then a stack that does not come to rest, instead of one that eats all memory)
        if self.tx.len() >= 40_000 {
            self.refused += 1;
            self.runaway = true;
            return false;
        }
        match self.tx_budget {
            Some(0) => {
                self.refused += 1;
                false
            }
            _ => true,
        }
    }
}

pub struct RxTok(Vec<u8>);
pub struct TxTok<'a> {
    dev_tx: &'a mut Vec<Vec<u8>>,
    budget: &'a mut Option<usize>,
    fill: Fill,
    ctr: &'a mut u64,
}

impl phy::RxToken for RxTok {
    fn consume<R, F>(self, f: F) -> R
    where
        F: FnOnce(&[u8]) -> R,
    {
        f(&self.0)
    }
}

impl<'a> phy::TxToken for TxTok<'a> {
    fn consume<R, F>(self, len: usize, f: F) -> R
    where
        F: FnOnce(&mut [u8]) -> R,
    {
        let mut buf = match self.fill {
            Fill::Zero => vec![0u8; len],
            Fill::Ones => vec![0xffu8; len],
            Fill::Garbage(k) => {
                *self.ctr += 1;
                let c = *self.ctr;
                (0..len)
                    .map(|i| (crate::tape::mix64(k ^ c, i as u64) >> 40) as u8)
                    .collect()
            }
        };
        let r = f(&mut buf);
        if let Some(n) = self.budget {
            *n = n.saturating_sub(1);
        }
        self.dev_tx.push(buf);
        r
    }
}

impl phy::Device for SimDevice {
    type RxToken<'a> = RxTok;
    type TxToken<'a> = TxTok<'a>;

    fn receive(&mut self, _t: Instant) -> Option<(RxTok, TxTok<'_>)> {
        if self.rx.is_empty() {
            return None;
        }
        // A receive also hands out a tx token (for the reply). When the tx ring is full a real
        // driver returns None from receive(); the frame stays queued.
        if !self.take_budget() {
            return None;
        }
        let f = self.rx.pop_front().unwrap();
        self.rx_consumed += 1;
        self.tokens += 1;
        Some((
            RxTok(f),
            TxTok {
                dev_tx: &mut self.tx,
                budget: &mut self.tx_budget,
                fill: self.fill,
                ctr: &mut self.fill_ctr,
            },
        ))
    }

    fn transmit(&mut self, _t: Instant) -> Option<TxTok<'_>> {
        if !self.take_budget() {
            return None;
        }
        self.tokens += 1;
        Some(TxTok {
            dev_tx: &mut self.tx,
            budget: &mut self.tx_budget,
            fill: self.fill,
            ctr: &mut self.fill_ctr,
        })
    }

    fn capabilities(&self) -> DeviceCapabilities {
        let mut c = DeviceCapabilities::default();
        c.medium = self.medium;
        c.max_transmission_unit = self.mtu;
        c.max_burst_size = self.max_burst;
        c.checksum = self.checksum.clone();
        c
    }
}
