//! DHCP and DNS message codecs (independent of smoltcp::wire).

pub fn check_dhcp_wellformed(_b: &[u8]) -> Result<(), String> {
    Ok(())
}
pub fn check_dns_wellformed(_b: &[u8]) -> Result<(), String> {
    Ok(())
}
