//! DHCPv4 and DNS message codecs (independent of smoltcp::wire).

// ---------------------------------------------------------------------------------------------
// DHCPv4 (RFC 2131 / 2132)

pub const DHCP_DISCOVER: u8 = 1;
pub const DHCP_OFFER: u8 = 2;
pub const DHCP_REQUEST: u8 = 3;
pub const DHCP_DECLINE: u8 = 4;
pub const DHCP_ACK: u8 = 5;
pub const DHCP_NAK: u8 = 6;
pub const DHCP_RELEASE: u8 = 7;
pub const DHCP_INFORM: u8 = 8;

#[derive(Clone, Debug, Default, PartialEq, Eq)]
pub struct Dhcp {
    pub op: u8,
    pub xid: u32,
    pub secs: u16,
    pub flags: u16,
    pub ciaddr: [u8; 4],
    pub yiaddr: [u8; 4],
    pub siaddr: [u8; 4],
    pub giaddr: [u8; 4],
    pub chaddr: [u8; 6],
    /// raw options in order (code, data), without PAD/END
    pub options: Vec<(u8, Vec<u8>)>,
}

impl Dhcp {
    pub fn opt(&self, code: u8) -> Option<&Vec<u8>> {
        self.options.iter().find(|(c, _)| *c == code).map(|(_, d)| d)
    }
    pub fn msg_type(&self) -> Option<u8> {
        self.opt(53).and_then(|d| d.first().copied())
    }
    pub fn opt_u32(&self, code: u8) -> Option<u32> {
        self.opt(code).filter(|d| d.len() == 4).map(|d| u32::from_be_bytes([d[0], d[1], d[2], d[3]]))
    }
    pub fn opt_ip(&self, code: u8) -> Option<[u8; 4]> {
        self.opt(code).filter(|d| d.len() >= 4).map(|d| [d[0], d[1], d[2], d[3]])
    }
}

pub fn dec_dhcp(b: &[u8]) -> Result<Dhcp, String> {
    if b.len() < 240 {
        return Err(format!("DHCP message of {} bytes shorter than the fixed part + cookie", b.len()));
    }
    if b[1] != 1 || b[2] != 6 {
        return Err("htype/hlen not Ethernet".into());
    }
    if b[236..240] != [99, 130, 83, 99] {
        return Err("magic cookie missing".into());
    }
    let mut d = Dhcp { op: b[0], xid: u32::from_be_bytes([b[4], b[5], b[6], b[7]]), secs: u16::from_be_bytes([b[8], b[9]]), flags: u16::from_be_bytes([b[10], b[11]]), ..Dhcp::default() };
    d.ciaddr.copy_from_slice(&b[12..16]);
    d.yiaddr.copy_from_slice(&b[16..20]);
    d.siaddr.copy_from_slice(&b[20..24]);
    d.giaddr.copy_from_slice(&b[24..28]);
    d.chaddr.copy_from_slice(&b[28..34]);
    let mut i = 240;
    let mut ended = false;
    while i < b.len() {
        let c = b[i];
        if c == 0 {
            i += 1;
            continue;
        }
        if c == 255 {
            ended = true;
            i += 1;
            break;
        }
        if i + 2 > b.len() {
            return Err("option header truncated".into());
        }
        let l = b[i + 1] as usize;
        if i + 2 + l > b.len() {
            return Err(format!("option {} overruns the message", c));
        }
        d.options.push((c, b[i + 2..i + 2 + l].to_vec()));
        i += 2 + l;
    }
    if !ended {
        return Err("END option missing".into());
    }
    if b[i..].iter().any(|x| *x != 0) {
        return Err("non-zero bytes after END".into());
    }
    Ok(d)
}

pub fn enc_dhcp(d: &Dhcp) -> Vec<u8> {
    let mut v = vec![0u8; 240];
    v[0] = d.op;
    v[1] = 1;
    v[2] = 6;
    v[4..8].copy_from_slice(&d.xid.to_be_bytes());
    v[8..10].copy_from_slice(&d.secs.to_be_bytes());
    v[10..12].copy_from_slice(&d.flags.to_be_bytes());
    v[12..16].copy_from_slice(&d.ciaddr);
    v[16..20].copy_from_slice(&d.yiaddr);
    v[20..24].copy_from_slice(&d.siaddr);
    v[24..28].copy_from_slice(&d.giaddr);
    v[28..34].copy_from_slice(&d.chaddr);
    v[236..240].copy_from_slice(&[99, 130, 83, 99]);
    for (c, data) in &d.options {
        // (code 0 with no data: a pad octet, which has no length octet)
        if *c == 0 && data.is_empty() {
            v.push(0);
            continue;
        }
        v.push(*c);
        v.push(data.len() as u8);
        v.extend_from_slice(data);
    }
    v.push(255);
    v
}

/// What C10 demands of an emitted DHCP client message.
pub fn check_dhcp_wellformed(b: &[u8]) -> Result<(), String> {
    let d = dec_dhcp(b)?;
    if d.op != 1 {
        return Err("client message with op != BOOTREQUEST".into());
    }
    let t = d.msg_type().ok_or("message type option missing")?;
    if !(1..=8).contains(&t) {
        return Err(format!("message type {}", t));
    }
    if let Some(m) = d.opt(57) {
        if m.len() != 2 {
            return Err("max message size option length".into());
        }
        let max = u16::from_be_bytes([m[0], m[1]]) as usize;
        if b.len() > max {
            return Err(format!("message of {} bytes larger than the announced maximum {}", b.len(), max));
        }
    }
    for (c, data) in &d.options {
        let want = match c {
            50 | 54 | 1 => Some(4),
            51 | 58 | 59 => Some(4),
            53 => Some(1),
            57 => Some(2),
            _ => None,
        };
        if let Some(w) = want {
            if data.len() != w {
                return Err(format!("option {} with length {}", c, data.len()));
            }
        }
    }
    Ok(())
}

// ---------------------------------------------------------------------------------------------
// DNS (RFC 1035)

#[derive(Clone, Debug, PartialEq, Eq)]
pub struct DnsQ {
    pub name: Vec<String>,
    pub qtype: u16,
    pub qclass: u16,
}
#[derive(Clone, Debug, PartialEq, Eq)]
pub struct DnsRr {
    pub name: Vec<String>,
    pub rtype: u16,
    pub class: u16,
    pub ttl: u32,
    pub rdata: Vec<u8>,
    /// for CNAME: the decoded target
    pub target: Option<Vec<String>>,
}
#[derive(Clone, Debug, PartialEq, Eq)]
pub struct Dns {
    pub id: u16,
    pub flags: u16,
    pub questions: Vec<DnsQ>,
    pub answers: Vec<DnsRr>,
}

pub const T_A: u16 = 1;
pub const T_CNAME: u16 = 5;
pub const T_AAAA: u16 = 28;

fn dec_name(b: &[u8], mut i: usize) -> Result<(Vec<String>, usize), String> {
    let mut labels = vec![];
    let mut end = None;
    let mut jumps = 0;
    loop {
        if i >= b.len() {
            return Err("name truncated".into());
        }
        let l = b[i] as usize;
        if l == 0 {
            if end.is_none() {
                end = Some(i + 1);
            }
            break;
        }
        if l & 0xc0 == 0xc0 {
            if i + 1 >= b.len() {
                return Err("pointer truncated".into());
            }
            let p = ((l & 0x3f) << 8) | b[i + 1] as usize;
            if end.is_none() {
                end = Some(i + 2);
            }
            jumps += 1;
            if jumps > 64 {
                return Err("pointer loop".into());
            }
            i = p;
            continue;
        }
        if l & 0xc0 != 0 {
            return Err("reserved label type".into());
        }
        if i + 1 + l > b.len() {
            return Err("label truncated".into());
        }
        labels.push(String::from_utf8_lossy(&b[i + 1..i + 1 + l]).to_lowercase());
        i += 1 + l;
    }
    Ok((labels, end.unwrap()))
}

pub fn dec_dns(b: &[u8]) -> Result<Dns, String> {
    if b.len() < 12 {
        return Err("shorter than the header".into());
    }
    let id = u16::from_be_bytes([b[0], b[1]]);
    let flags = u16::from_be_bytes([b[2], b[3]]);
    let qd = u16::from_be_bytes([b[4], b[5]]) as usize;
    let an = u16::from_be_bytes([b[6], b[7]]) as usize;
    let mut i = 12;
    let mut questions = vec![];
    for _ in 0..qd {
        let (name, ni) = dec_name(b, i)?;
        if ni + 4 > b.len() {
            return Err("question truncated".into());
        }
        questions.push(DnsQ { name, qtype: u16::from_be_bytes([b[ni], b[ni + 1]]), qclass: u16::from_be_bytes([b[ni + 2], b[ni + 3]]) });
        i = ni + 4;
    }
    let mut answers = vec![];
    for _ in 0..an {
        let (name, ni) = dec_name(b, i)?;
        if ni + 10 > b.len() {
            return Err("record truncated".into());
        }
        let rtype = u16::from_be_bytes([b[ni], b[ni + 1]]);
        let class = u16::from_be_bytes([b[ni + 2], b[ni + 3]]);
        let ttl = u32::from_be_bytes([b[ni + 4], b[ni + 5], b[ni + 6], b[ni + 7]]);
        let rl = u16::from_be_bytes([b[ni + 8], b[ni + 9]]) as usize;
        if ni + 10 + rl > b.len() {
            return Err("rdata truncated".into());
        }
        let rdata = b[ni + 10..ni + 10 + rl].to_vec();
        let target = if rtype == T_CNAME { dec_name(b, ni + 10).ok().map(|x| x.0) } else { None };
        answers.push(DnsRr { name, rtype, class, ttl, rdata, target });
        i = ni + 10 + rl;
    }
    Ok(Dns { id, flags, questions, answers })
}

pub fn enc_name(labels: &[String]) -> Vec<u8> {
    let mut v = vec![];
    for l in labels {
        v.push(l.len() as u8);
        v.extend_from_slice(l.as_bytes());
    }
    v.push(0);
    v
}

/// Encoder for responses; `compress` points answer names back at the question name.
pub fn enc_dns(d: &Dns, compress: bool) -> Vec<u8> {
    let mut v = vec![];
    v.extend_from_slice(&d.id.to_be_bytes());
    v.extend_from_slice(&d.flags.to_be_bytes());
    v.extend_from_slice(&(d.questions.len() as u16).to_be_bytes());
    v.extend_from_slice(&(d.answers.len() as u16).to_be_bytes());
    v.extend_from_slice(&[0, 0, 0, 0]);
    let mut qname_at = None;
    for q in &d.questions {
        if qname_at.is_none() {
            qname_at = Some((v.len(), q.name.clone()));
        }
        v.extend_from_slice(&enc_name(&q.name));
        v.extend_from_slice(&q.qtype.to_be_bytes());
        v.extend_from_slice(&q.qclass.to_be_bytes());
    }
    for r in &d.answers {
        match (&qname_at, compress) {
            (Some((at, n)), true) if *n == r.name => {
                v.push(0xc0 | (*at >> 8) as u8);
                v.push(*at as u8);
            }
            _ => v.extend_from_slice(&enc_name(&r.name)),
        }
        v.extend_from_slice(&r.rtype.to_be_bytes());
        v.extend_from_slice(&r.class.to_be_bytes());
        v.extend_from_slice(&r.ttl.to_be_bytes());
        let rdata = match (&r.target, r.rtype) {
            (Some(t), T_CNAME) => enc_name(t),
            _ => r.rdata.clone(),
        };
        v.extend_from_slice(&(rdata.len() as u16).to_be_bytes());
        v.extend_from_slice(&rdata);
    }
    v
}

/// What C10 demands of an emitted DNS query.
pub fn check_dns_wellformed(b: &[u8]) -> Result<(), String> {
    if b.len() < 12 {
        return Err("shorter than the header".into());
    }
    let d = dec_dns(b)?;
    if d.flags & 0x8000 != 0 {
        return Err("a query with QR set".into());
    }
    if d.questions.len() != 1 {
        return Err(format!("{} questions", d.questions.len()));
    }
    if u16::from_be_bytes([b[6], b[7]]) != 0 || u16::from_be_bytes([b[8], b[9]]) != 0 || u16::from_be_bytes([b[10], b[11]]) != 0 {
        return Err("non-zero AN/NS/AR count in a query".into());
    }
    // reserved Z bits and RCODE must be zero in a query
    if d.flags & 0x0070 != 0 || d.flags & 0x000f != 0 {
        return Err("Z bits or RCODE set in a query".into());
    }
    for l in &d.questions[0].name {
        if l.is_empty() || l.len() > 63 {
            return Err("label length".into());
        }
    }
    let qend = name_span(b, 12).ok_or("question name malformed")? + 4;
    if b.len() != qend {
        return Err("trailing bytes after the question".into());
    }
    Ok(())
}

/// Lenient view of a DNS response: walks the records as far as their framing allows, decoding
/// each name independently (a name that cannot be decoded yields None but does not stop the
/// walk). Used as an over-approximation of what any resolver could take from the datagram.
pub struct LenientDns {
    pub id: u16,
    pub flags: u16,
    pub qdcount: u16,
    pub qname: Option<Vec<String>>,
    pub qtype: u16,
    /// (owner name, type, rdata, CNAME target)
    pub records: Vec<(Option<Vec<String>>, u16, Vec<u8>, Option<Vec<String>>)>,
}

fn name_span(b: &[u8], mut i: usize) -> Option<usize> {
    // end offset of the name as stored in place
    loop {
        let l = *b.get(i)? as usize;
        if l == 0 {
            return Some(i + 1);
        }
        if l & 0xc0 == 0xc0 {
            b.get(i + 1)?;
            return Some(i + 2);
        }
        if l & 0xc0 != 0 {
            return None;
        }
        i += 1 + l;
    }
}

pub fn dec_dns_lenient(b: &[u8]) -> Option<LenientDns> {
    if b.len() < 12 {
        return None;
    }
    let id = u16::from_be_bytes([b[0], b[1]]);
    let flags = u16::from_be_bytes([b[2], b[3]]);
    let qd = u16::from_be_bytes([b[4], b[5]]);
    let an = u16::from_be_bytes([b[6], b[7]]) as usize;
    let mut out = LenientDns { id, flags, qdcount: qd, qname: None, qtype: 0, records: vec![] };
    if qd == 0 {
        return Some(out);
    }
    let qe = name_span(b, 12)?;
    out.qname = dec_name(b, 12).ok().map(|x| x.0);
    if qe + 4 > b.len() {
        return Some(out);
    }
    out.qtype = u16::from_be_bytes([b[qe], b[qe + 1]]);
    let mut i = qe + 4;
    // further questions are skipped the same way
    for _ in 1..qd {
        match name_span(b, i) {
            Some(e) if e + 4 <= b.len() => i = e + 4,
            _ => return Some(out),
        }
    }
    for _ in 0..an {
        let Some(ne) = name_span(b, i) else { break };
        if ne + 10 > b.len() {
            break;
        }
        let name = dec_name(b, i).ok().map(|x| x.0);
        let rtype = u16::from_be_bytes([b[ne], b[ne + 1]]);
        let rl = u16::from_be_bytes([b[ne + 8], b[ne + 9]]) as usize;
        if ne + 10 + rl > b.len() {
            break;
        }
        let rdata = b[ne + 10..ne + 10 + rl].to_vec();
        let target = if rtype == T_CNAME { dec_name(b, ne + 10).ok().map(|x| x.0) } else { None };
        out.records.push((name, rtype, rdata, target));
        i = ne + 10 + rl;
    }
    Some(out)
}
