mod codec;
mod codec6lo;
mod core;
mod device;
mod dhcpdns;
mod mk;
mod runner;
mod scen_adv;
mod scen_dhcp;
mod scen_6lo;
mod scen_dgram;
mod scen_dns;
mod scen_inject;
mod scen_neigh;
mod scen_peer;
mod scen_raw;
mod scen_reasm;
mod scen_slaac;
mod scen_tcp;
mod tap;
mod tape;
mod world;

use crate::core::{Outcome, Props};
use crate::runner::*;
use crate::tape::Tape;

fn tcp_safety(t: &mut Tape, p: Props, thorough: bool, trace: bool) -> Outcome {
    scen_tcp::run(t, p, &scen_tcp::Params { liveness: false, thorough, force_medium: None, timeouts_in_exact: false }, trace)
}
fn tcp_liveness(t: &mut Tape, p: Props, thorough: bool, trace: bool) -> Outcome {
    scen_tcp::run(t, p, &scen_tcp::Params { liveness: true, thorough, force_medium: None, timeouts_in_exact: false }, trace)
}

fn tcp_exact_timeouts(t: &mut Tape, p: Props, thorough: bool, trace: bool) -> Outcome {
    scen_tcp::run(t, p, &scen_tcp::Params { liveness: true, thorough, force_medium: None, timeouts_in_exact: true }, trace)
}

fn peer_receiver(t: &mut Tape, p: Props, thorough: bool, trace: bool) -> Outcome {
    scen_peer::run_receiver(t, p, thorough, trace)
}
fn peer_sender(t: &mut Tape, p: Props, thorough: bool, trace: bool) -> Outcome {
    scen_peer::run_sender(t, p, thorough, trace)
}

fn peer_states(t: &mut Tape, p: Props, thorough: bool, trace: bool) -> Outcome {
    scen_peer::run_states(t, p, thorough, trace)
}

fn dgram_exact(t: &mut Tape, p: Props, thorough: bool, trace: bool) -> Outcome {
    scen_dgram::run(t, p, &scen_dgram::Params { thorough, frag_heavy: false, exact: true }, trace)
}
fn dgram_sloppy(t: &mut Tape, p: Props, thorough: bool, trace: bool) -> Outcome {
    scen_dgram::run(t, p, &scen_dgram::Params { thorough, frag_heavy: false, exact: false }, trace)
}
fn dgram_frag(t: &mut Tape, p: Props, thorough: bool, trace: bool) -> Outcome {
    scen_dgram::run(t, p, &scen_dgram::Params { thorough, frag_heavy: true, exact: true }, trace)
}
fn dgram_frag_sloppy(t: &mut Tape, p: Props, thorough: bool, trace: bool) -> Outcome {
    scen_dgram::run(t, p, &scen_dgram::Params { thorough, frag_heavy: true, exact: false }, trace)
}

fn adv_any(t: &mut Tape, p: Props, thorough: bool, trace: bool) -> Outcome {
    scen_adv::run(t, p, thorough, trace, None)
}
fn adv_154(t: &mut Tape, p: Props, thorough: bool, trace: bool) -> Outcome {
    scen_adv::run(t, p, thorough, trace, Some(codec::Medium::Ieee802154))
}

fn injector(t: &mut Tape, p: Props, thorough: bool, trace: bool) -> Outcome {
    scen_inject::run(t, p, thorough, trace)
}

fn dns_scn(t: &mut Tape, p: Props, thorough: bool, trace: bool) -> Outcome {
    scen_dns::run(t, p, thorough, trace)
}

fn sixlo_scn(t: &mut Tape, p: Props, thorough: bool, trace: bool) -> Outcome {
    scen_6lo::run(t, p, thorough, trace)
}

fn neigh_scn(t: &mut Tape, p: Props, thorough: bool, trace: bool) -> Outcome {
    scen_neigh::run(t, p, thorough, trace)
}

fn slaac_scn(t: &mut Tape, p: Props, thorough: bool, trace: bool) -> Outcome {
    scen_slaac::run(t, p, thorough, trace)
}

fn raw_scn(t: &mut Tape, p: Props, thorough: bool, trace: bool) -> Outcome {
    scen_raw::run(t, p, thorough, trace)
}

fn reasm_scn(t: &mut Tape, p: Props, thorough: bool, trace: bool) -> Outcome {
    scen_reasm::run(t, p, thorough, trace)
}

fn dhcp_scn(t: &mut Tape, p: Props, thorough: bool, trace: bool) -> Outcome {
    scen_dhcp::run(t, p, thorough, trace)
}

const REAL: &str = "smoltcp::iface::Interface, SocketSet, all socket types used by the scenario, wire, storage, iface::{neighbor,route,fragmentation} - built from /repo's working tree";
const STUB: &str = "device (SimDevice), link, clock, application workload, scripted peers (own codec, no smoltcp::wire)";

fn defs() -> &'static [CheckDef] {
    static D: std::sync::OnceLock<Vec<CheckDef>> = std::sync::OnceLock::new();
    D.get_or_init(|| {
        vec![
            CheckDef {
                id: "C01",
                props: Props::of(&["C01"]),
                scens: vec![Scen { name: "tcp-pair-safety", weight: 3, run: tcp_safety }, Scen { name: "tcp-pair-liveness", weight: 1, run: tcp_liveness }],
                rule: "one run = one seeded execution of two real TCP endpoints over a faulty link (config, workload, fates all from the tape); non-trivial = at least one link fault fired AND at least one out-of-order or retransmitted segment AND >= 1000 bytes delivered; distinct = distinct 128-bit hash of the complete event log",
                assumptions: vec![
                    "bit damage is only injected where the independent checksum proves it detectable (or semantically neutral); undetectable candidates degrade to drop",
                    "the independent codec and stream generator are trusted",
                ],
                real: REAL,
                stub: STUB,
                quick_s: 20.0,
                thorough_s: 600.0,
            },
            CheckDef {
                id: "C02",
                props: Props::of(&["C02"]),
                scens: vec![Scen { name: "tcp-pair-liveness", weight: 4, run: tcp_liveness }, Scen { name: "tcp-peer-sender", weight: 1, run: peer_sender }, Scen { name: "tcp-peer-receiver", weight: 1, run: peer_receiver }],
                rule: "one run = two real TCP endpoints polled ONLY on frame arrival, after application calls and at the instant returned by poll_at; faults until fault_end then reliable in-order delivery; non-trivial = a fault fired AND a retransmission or out-of-order delivery happened AND >= 1000 bytes delivered; a third of the runs: one real socket against a scripted peer (hostile schedule, then a plain correct receiver / sender on a loss-free network) polled per poll_at, non-trivial per the C05 / C04 rule; distinct = event-log hash",
                assumptions: vec!["bounded-progress constants (400 s window, 600 s + 40 x segments x RTT total) are an order of magnitude above the worst legitimate timer chain (RTO/ZWP cap 60 s)", "set_timeout(None): a user timeout legitimately aborts"],
                real: REAL,
                stub: STUB,
                quick_s: 20.0,
                thorough_s: 600.0,
            },
            CheckDef {
                id: "C05",
                props: Props::of(&["C05"]),
                scens: vec![Scen { name: "tcp-pair-safety", weight: 1, run: tcp_safety }, Scen { name: "tcp-pair-liveness", weight: 1, run: tcp_liveness }, Scen { name: "tcp-peer-sender", weight: 2, run: peer_sender }],
                rule: "wire monitor on every segment emitted by both real endpoints; non-trivial = fault fired AND retransmission/out-of-order AND >= 1000 bytes; distinct = event-log hash",
                assumptions: vec!["in two-node runs ACKs are reordered, so the window bound is the sound relaxation max over delivered ACKs of ack+win", "window-field bounds only with max_burst_size = None"],
                real: REAL,
                stub: STUB,
                quick_s: 20.0,
                thorough_s: 600.0,
            },
            CheckDef {
                id: "C03",
                props: Props::of(&["C03"]),
                scens: vec![
                    Scen { name: "adversary-any-medium", weight: 6, run: adv_any },
                    Scen { name: "adversary-802154", weight: 2, run: adv_154 },
                    Scen { name: "tcp-peer-receiver", weight: 2, run: peer_receiver },
                    Scen { name: "tcp-peer-sender", weight: 1, run: peer_sender },
                    Scen { name: "tcp-peer-states", weight: 2, run: peer_states },
                    Scen { name: "tcp-pair-safety", weight: 1, run: tcp_safety },
                    Scen { name: "dhcp-client", weight: 1, run: dhcp_scn },
                    Scen { name: "dns-resolver", weight: 1, run: dns_scn },
                    Scen { name: "6lowpan-pair", weight: 2, run: sixlo_scn },
                    Scen { name: "slaac-node", weight: 1, run: slaac_scn },
                    Scen { name: "neighbour-population", weight: 1, run: neigh_scn },
                    Scen { name: "raw-pair", weight: 1, run: raw_scn },
                ],
                rule: "every call into the library runs under catch_unwind and a watchdog; one run = one seeded scenario execution (adversarial frame sequences, scripted TCP peers, two-node faulty links); non-trivial per scenario rule; distinct = event-log hash",
                assumptions: vec!["build profile: release with debug-assertions and overflow-checks (what a development build of a user sees)"],
                real: REAL,
                stub: STUB,
                quick_s: 20.0,
                thorough_s: 600.0,
            },
            CheckDef {
                id: "C04",
                props: Props::of(&["C04"]),
                scens: vec![Scen { name: "tcp-peer-receiver", weight: 1, run: peer_receiver }],
                rule: "one run = one real TCP socket facing a scripted peer that sends tape-chosen segments placed relative to the victim's current window (left, straddling, in sequence, inside, at/over the right edge), with/without FIN, valid/stale ACK fields, interleaved with reads and time; non-trivial = >= 3 segments and at least one overlapping/out-of-order or beyond-window segment; distinct = event-log hash",
                assumptions: vec!["the peer is consistent: the byte at sequence number s is a fixed function of s and FIN sits at one fixed position", "max_burst_size = None"],
                real: REAL,
                stub: STUB,
                quick_s: 20.0,
                thorough_s: 600.0,
            },
            CheckDef {
                id: "C17",
                props: Props::of(&["C17"]),
                scens: vec![Scen { name: "tcp-peer-states", weight: 1, run: peer_states }],
                rule: "one run = a sequence of single stimuli (one API call, one segment via poll_ingress_single, or one timed egress pass) applied to a real socket from whatever state it is in; state() observed before/after each; non-trivial = >= 10 stimuli and >= 2 state changes; distinct = event-log hash",
                assumptions: vec!["no user timeout / keep-alive configured, so an egress pass alone may only expire TIME-WAIT", "reference RCV.NXT is derived from the socket's public byte counters (bytes read + recv_queue), the window edge and ISS from the wire"],
                real: REAL,
                stub: STUB,
                quick_s: 20.0,
                thorough_s: 600.0,
            },
            CheckDef {
                id: "C09",
                props: Props::of(&["C09"]),
                scens: vec![Scen { name: "dgram-pair-exact", weight: 2, run: dgram_exact }, Scen { name: "dgram-pair-sloppy", weight: 2, run: dgram_sloppy }, Scen { name: "dgram-pair-frag", weight: 1, run: dgram_frag }, Scen { name: "raw-pair", weight: 1, run: raw_scn }, Scen { name: "scripted-fragments", weight: 1, run: reasm_scn }, Scen { name: "6lowpan-pair", weight: 1, run: sixlo_scn }, Scen { name: "injector", weight: 1, run: injector }],
                rule: "one run = two real nodes with UDP and ICMP sockets (metadata rings 1-8 slots, payload rings 16-8192 bytes) exchanging tape-chosen datagrams over a faulty link with neighbour-resolution delays and device back-pressure; FIFO reference model per socket; non-trivial = a fault fired AND >= 3 datagrams delivered; distinct = event-log hash",
                assumptions: vec!["exactly-once is judged at quiescence (no frame in flight, no deadline) after faults stopped"],
                real: REAL,
                stub: STUB,
                quick_s: 20.0,
                thorough_s: 600.0,
            },
            CheckDef {
                id: "C11",
                props: Props::of(&["C11"]),
                scens: vec![Scen { name: "injector", weight: 1, run: injector }],
                rule: "one run = a real node (tape-chosen medium, listeners/UDP/ICMP/DNS/raw sockets, joined groups) receiving valid packets drawn one at a time from protocol x L2 destination class x IP destination class x IP source class x port relation, each delivered alone through poll_ingress_single; verdict from an independent rule table; non-trivial = >= 5 packets of which >= 1 not addressed to the node; distinct = event-log hash",
                assumptions: vec!["IPv6 hop-by-hop options whose type bits mandate a Parameter Problem even for multicast destinations (RFC 8200 s4.2) are not generated", "raw sockets see every IP packet by design and are outside the delivery rule"],
                real: REAL,
                stub: STUB,
                quick_s: 20.0,
                thorough_s: 600.0,
            },
            CheckDef {
                id: "C12",
                props: Props::of(&["C12"]),
                scens: vec![Scen { name: "dgram-pair-frag", weight: 2, run: dgram_frag }, Scen { name: "dgram-pair-frag-sloppy", weight: 1, run: dgram_frag_sloppy }, Scen { name: "scripted-fragments", weight: 2, run: reasm_scn }, Scen { name: "neighbour-population", weight: 1, run: neigh_scn }],
                rule: "one run = two real IPv4 nodes sending oversized UDP/ICMP datagrams (and oversized echo replies) back to back, MTU 68..1507 over every residue mod 8, fragments permuted/duplicated/lost/delayed by the link, device refusing between fragments; independent reassembly of what the sender emits and of what reaches the receiver; non-trivial = at least one datagram actually fragmented AND a fault fired; distinct = event-log hash",
                assumptions: vec!["must-deliver is only claimed when a conservative mirror of the single reassembly slot says the slot was free and <= 3 gaps were ever needed"],
                real: REAL,
                stub: STUB,
                quick_s: 20.0,
                thorough_s: 600.0,
            },
            CheckDef {
                id: "C16",
                props: Props::of(&["C16"]),
                scens: vec![Scen { name: "neighbour-population", weight: 4, run: neigh_scn }, Scen { name: "dgram-pair-exact", weight: 1, run: dgram_exact }, Scen { name: "dgram-pair-sloppy", weight: 1, run: dgram_sloppy }, Scen { name: "slaac-node", weight: 1, run: slaac_scn }],
                rule: "neighbour-population: one real node on Ethernet (IPv4/ARP or IPv6/NDISC) with 3 UDP sockets sending to 2..13 on-link neighbours (cache has 8 slots) and off-link destinations behind two gateways (default + specific route, each with optional expiry), against scripted neighbours that answer solicitations timely, late (to 61 s), never, or first with a non-unicast hardware address / an off-link sender, announce themselves unsolicited, change hardware address; own-address changes; time advances per poll_at, random, and landing on +-1 us of the 1 s rate-limit and 60 s expiry instants; plus the tap oracle on the two-node Ethernet datagram runs; non-trivial = >= 3 unicast frames checked and >= 2 solicitations; distinct = event-log hash",
                assumptions: vec![
                    "learned(next hop, hardware address) is an over-approximation: every valid announcement delivered to the node within 60 s counts, whether or not the cache kept it (8 slots)",
                    "the freshness of the hardware address is judged at the first fragment of a datagram; later fragments must go where the first one went",
                    "solicitation rate is checked globally (any two ARP requests / multicast neighbour solicitations >= 1 s apart), which is what the statement says and what the shared cache timer implements",
                ],
                real: REAL,
                stub: STUB,
                quick_s: 20.0,
                thorough_s: 600.0,
            },
            CheckDef {
                id: "C18",
                props: Props::of(&["C18"]),
                scens: vec![Scen { name: "dhcp-client", weight: 1, run: dhcp_scn }],
                rule: "one run = a real DHCPv4 client on Ethernet whose configuration is applied to the interface like an application would, polled per poll_at (with occasional late polls), against a scripted server that answers with correct or deliberately invalid OFFER/ACK/NAK (foreign xid or MAC, missing server id, non-contiguous mask, non-unicast address, lease/T1/T2 in {0,1,equal,inverted,2^32-1,absent}, truncated or overlong options), lost, delayed or duplicated, and that may stop answering DHCP or ARP; clock origin up to 30 years; non-trivial = >= 1 Configured event and >= 2 server messages; distinct = event-log hash",
                assumptions: vec!["t_ack is the instant of the poll that ingested the ACK", "when any not-plain ACK was ingested since binding, the lease bound is relaxed to the maximum over the valid ACKs ingested"],
                real: REAL,
                stub: STUB,
                quick_s: 20.0,
                thorough_s: 600.0,
            },
            CheckDef {
                id: "C20",
                props: Props::of(&["C20"]),
                scens: vec![Scen { name: "6lowpan-pair", weight: 1, run: sixlo_scn }],
                rule: "one run = two real interfaces on IEEE 802.15.4 (extended or short hardware addresses; link-local, context-prefix and arbitrary global addresses; shared address context or none) exchanging UDP (port classes inline / 8-bit / 4-bit on either side, hop limits 1/64/255/other, unicast, all-nodes, solicited-node and joined-group destinations), ICMPv6 echo, MLD reports and a TCP stream, payload 0..1700 octets, several sends back to back, tx ring of 1..5 frames per poll; the link is loss-free and in order (half of the runs) or reorders/duplicates (and drops) frames until faults stop; every emitted frame is decoded, reassembled and decompressed by the harness's own RFC 4944/6282 codec; non-trivial = >= 1 fragmented datagram and >= 2 application deliveries; distinct = event-log hash",
                assumptions: vec![
                    "the independent 6LoWPAN codec (written from RFC 4944 / RFC 6282) is trusted",
                    "compared with the application-level model of what was sent rather than with a second run over the raw-IP medium (same verdict, one run)",
                    "a reply that needs the fragmenter while it is busy is legitimately dropped, so echo replies are only required when nothing else competes for it",
                ],
                real: REAL,
                stub: STUB,
                quick_s: 20.0,
                thorough_s: 600.0,
            },
            CheckDef {
                id: "C19",
                props: Props::of(&["C19"]),
                scens: vec![Scen { name: "dns-resolver", weight: 1, run: dns_scn }],
                rule: "one run = a real DNS socket (1-3 concurrent A/AAAA/mDNS queries) polled exactly per poll_at against a scripted server that answers each wire query with a response that is valid or wrong in exactly one respect (txid, destination port, source port, source address, question name/type, QDCOUNT, QR), NXDomain, truncated at a random byte, with backward/forward/self compression pointers, CNAME chains, delayed, duplicated or withheld; non-trivial = >= 1 query started and >= 2 responses sent; distinct = event-log hash",
                assumptions: vec!["DNS_MAX_SERVER_COUNT = 1 in the shipped configuration (fail-over to a second server needs the wide build)", "termination bound 40 s per query (per destination: transmissions at 0,1,3,7 s and the 10 s time-out; at most two destinations - the two mDNS groups of a dual-stack node - in the shipped configuration)"],
                real: REAL,
                stub: STUB,
                quick_s: 20.0,
                thorough_s: 600.0,
            },
            CheckDef {
                id: "C08",
                props: Props::of(&["C08"]),
                scens: vec![
                    Scen { name: "tcp-pair-safety", weight: 2, run: tcp_safety },
                    Scen { name: "tcp-pair-liveness", weight: 1, run: tcp_liveness },
                    Scen { name: "tcp-peer-receiver", weight: 1, run: peer_receiver },
                    Scen { name: "tcp-peer-sender", weight: 1, run: peer_sender },
                    Scen { name: "tcp-peer-states", weight: 1, run: peer_states },
                    Scen { name: "dgram-pair-sloppy", weight: 2, run: dgram_sloppy },
                    Scen { name: "dgram-pair-frag", weight: 2, run: dgram_frag },
                    Scen { name: "dns-resolver", weight: 1, run: dns_scn },
                    Scen { name: "dhcp-client", weight: 1, run: dhcp_scn },
                    Scen { name: "6lowpan-pair", weight: 2, run: sixlo_scn },
                    Scen { name: "slaac-node", weight: 1, run: slaac_scn },
                    Scen { name: "neighbour-population", weight: 1, run: neigh_scn },
                    Scen { name: "raw-pair", weight: 1, run: raw_scn },
                    Scen { name: "adversary-any-medium", weight: 3, run: adv_any },
                    Scen { name: "injector", weight: 2, run: injector },
                ],
                rule: "every emitted packet verified with the independent RFC 1071 implementation; checksum-detectable 1-2 bit damage delivered alone must change no socket and elicit no frame; non-trivial = at least one damaged frame checked or >= 1000 bytes carried; distinct = event-log hash",
                assumptions: vec!["clause 1 of C08 (the routine as a pure function of every length/alignment) is not decided by simulation"],
                real: REAL,
                stub: STUB,
                quick_s: 20.0,
                thorough_s: 600.0,
            },
            CheckDef {
                id: "C10",
                props: Props::of(&["C10"]),
                scens: vec![
                    Scen { name: "tcp-pair-safety", weight: 2, run: tcp_safety },
                    Scen { name: "tcp-pair-liveness", weight: 1, run: tcp_liveness },
                    Scen { name: "tcp-peer-receiver", weight: 1, run: peer_receiver },
                    Scen { name: "tcp-peer-sender", weight: 1, run: peer_sender },
                    Scen { name: "tcp-peer-states", weight: 1, run: peer_states },
                    Scen { name: "dgram-pair-sloppy", weight: 2, run: dgram_sloppy },
                    Scen { name: "dgram-pair-frag", weight: 2, run: dgram_frag },
                    Scen { name: "dns-resolver", weight: 1, run: dns_scn },
                    Scen { name: "dhcp-client", weight: 1, run: dhcp_scn },
                    Scen { name: "6lowpan-pair", weight: 2, run: sixlo_scn },
                    Scen { name: "slaac-node", weight: 1, run: slaac_scn },
                    Scen { name: "neighbour-population", weight: 1, run: neigh_scn },
                    Scen { name: "raw-pair", weight: 1, run: raw_scn },
                    Scen { name: "adversary-any-medium", weight: 3, run: adv_any },
                    Scen { name: "injector", weight: 2, run: injector },
                ],
                rule: "strict independent decoder + MTU + source-address rule on every frame of every scenario; distinct = event-log hash",
                assumptions: vec!["the strict decoder encodes the harness author's reading of the RFCs"],
                real: REAL,
                stub: STUB,
                quick_s: 20.0,
                thorough_s: 600.0,
            },
            CheckDef {
                id: "C13",
                props: Props::of(&["C13"]),
                scens: vec![Scen { name: "tcp-pair-liveness", weight: 2, run: tcp_liveness }, Scen { name: "tcp-pair-exact-with-user-timeouts", weight: 1, run: tcp_exact_timeouts }, Scen { name: "dgram-pair-exact", weight: 1, run: dgram_exact }, Scen { name: "dgram-pair-frag", weight: 1, run: dgram_frag }, Scen { name: "slaac-node", weight: 2, run: slaac_scn }, Scen { name: "dhcp-client", weight: 1, run: dhcp_scn }, Scen { name: "dns-resolver", weight: 1, run: dns_scn }],
                rule: "early-poll probes (no frame, no socket call since the last poll) at tape-chosen instants before poll_at (or up to 30 s later when poll_at is None); idle-poll deadline check after every frame-less poll; two-node TCP / UDP+ICMP / fragmenting runs and a SLAAC-enabled node with a connecting TCP socket against a scripted router (timely / late / silent / unsolicited advertisements, lifetimes 0 .. infinity); the DHCP-client and DNS-resolver scenarios with the same probes; distinct = event-log hash",
                assumptions: vec!["IGMP/MLD report timers are outside the claim"],
                real: REAL,
                stub: STUB,
                quick_s: 20.0,
                thorough_s: 600.0,
            },
        ]
    })
}

struct StdoutLog;
impl log::Log for StdoutLog {
    fn enabled(&self, _m: &log::Metadata) -> bool {
        true
    }
    fn log(&self, r: &log::Record) {
        println!("      [smoltcp {}] {}", r.level(), r.args());
    }
    fn flush(&self) {}
}
static LOGGER: StdoutLog = StdoutLog;

fn main() {
    let r = std::panic::catch_unwind(real_main);
    if r.is_err() {
        eprintln!("harness error: the simulator itself panicked");
        std::process::exit(2);
    }
}

fn real_main() {
    let args: Vec<String> = std::env::args().collect();
    if std::env::var("SIM_LOG").is_ok() {
        let _ = log::set_logger(&LOGGER);
        log::set_max_level(log::LevelFilter::Trace);
    }
    let seed: u64 = std::env::var("VERIF_SEED").ok().and_then(|s| s.parse().ok()).unwrap_or(DEFAULT_SEED);
    let threads: usize = std::env::var("VERIF_THREADS").ok().and_then(|s| s.parse().ok()).unwrap_or(16).clamp(1, 60);
    let code = match args.get(1).map(|s| s.as_str()) {
        Some("run") => {
            let id = args.get(2).cloned().unwrap_or_default();
            let tier = args.iter().position(|a| a == "--tier").and_then(|i| args.get(i + 1)).cloned().or_else(|| std::env::var("VERIF_TIER").ok()).unwrap_or_else(|| "quick".into());
            let thorough = tier == "thorough";
            match defs().iter().find(|d| d.id == id) {
                Some(d) => {
                    let budget = std::env::var("VERIF_BUDGET_S").ok().and_then(|s| s.parse().ok()).unwrap_or(if thorough { d.thorough_s } else { d.quick_s });
                    let max_runs = std::env::var("VERIF_MAX_RUNS").ok().and_then(|s| s.parse().ok()).unwrap_or(u64::MAX);
                    run_check(d, thorough, seed, budget, max_runs, threads)
                }
                None => {
                    eprintln!("unknown check {}", id);
                    2
                }
            }
        }
        Some("replay") => replay_file(defs(), args.get(2).map(|s| s.as_str()).unwrap_or("")),
        Some("selfcheck") => {
            let n: u64 = args.get(3).and_then(|s| s.parse().ok()).unwrap_or(2000);
            let mut code = 0;
            for d in defs() {
                if args.get(2).map(|s| s == "all" || s == d.id).unwrap_or(true) {
                    let c = selfcheck_determinism(d, n, seed, threads);
                    code = code.max(c);
                }
            }
            code
        }
        Some("one") => {
            // run one seed of one check with tracing (debugging aid)
            let id = args.get(2).cloned().unwrap_or_default();
            let i: u64 = args.get(3).and_then(|s| s.parse().ok()).unwrap_or(0);
            crate::core::install_panic_hook();
            let d = defs().iter().find(|d| d.id == id).expect("check");
            let total: u32 = d.scens.iter().map(|s| s.weight).sum();
            let mut k = (i % total as u64) as u32;
            let mut si = 0;
            for (j, s) in d.scens.iter().enumerate() {
                if k < s.weight {
                    si = j;
                    break;
                }
                k -= s.weight;
            }
            let mut t = Tape::record(run_seed(seed, i));
            let out = (d.scens[si].run)(&mut t, d.props, false, true);
            for l in &out.trace {
                println!("{}", l);
            }
            println!("config: {}", out.cfg_desc);
            println!("events={} sim={}s draws={} viol={:?}", out.events, out.sim_us / 1_000_000, t.draws(), out.viol);
            for (k, v) in &out.stats.c {
                println!("  {} = {}", k, v);
            }
            0
        }
        _ => {
            eprintln!("usage: simcheck run <ID> [--tier quick|thorough] | replay <file> | selfcheck [ID|all] [n] | one <ID> <index>");
            2
        }
    };
    std::process::exit(code);
}

