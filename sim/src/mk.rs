//! Node construction helpers and address conversions.

use crate::codec::{IpAddr, Medium, Verify};
use crate::core::Node;
use crate::device::{Fill, SimDevice};
use crate::tap::NodeView;
use smoltcp::iface::{Config, Interface, SocketSet};
use smoltcp::phy::{Checksum, ChecksumCapabilities};
use smoltcp::time::Instant;
use smoltcp::wire::{
    EthernetAddress, HardwareAddress, Ieee802154Address, Ieee802154Pan, IpAddress, IpCidr, Ipv4Address, Ipv6Address,
};

pub fn to_smol(a: &IpAddr) -> IpAddress {
    match a {
        IpAddr::V4(b) => IpAddress::Ipv4(Ipv4Address::new(b[0], b[1], b[2], b[3])),
        IpAddr::V6(b) => IpAddress::Ipv6(Ipv6Address::from(*b)),
    }
}
pub fn from_smol(a: &IpAddress) -> IpAddr {
    match a {
        IpAddress::Ipv4(x) => IpAddr::V4(x.octets()),
        IpAddress::Ipv6(x) => IpAddr::V6(x.octets()),
    }
}
pub fn smol_medium(m: Medium) -> smoltcp::phy::Medium {
    match m {
        Medium::Ip => smoltcp::phy::Medium::Ip,
        Medium::Ethernet => smoltcp::phy::Medium::Ethernet,
        Medium::Ieee802154 => smoltcp::phy::Medium::Ieee802154,
    }
}

#[derive(Clone, Debug)]
pub struct NodeCfg {
    pub name: char,
    pub medium: Medium,
    /// device MTU (incl. Ethernet header for Ethernet, as smoltcp defines it)
    pub mtu: usize,
    pub mac: [u8; 6],
    /// 802.15.4 extended address
    pub ll8: [u8; 8],
    /// 802.15.4 short address used as the hardware address instead of ll8
    pub ll2: Option<[u8; 2]>,
    pub pan: Option<u16>,
    pub addrs: Vec<(IpAddr, u8)>,
    pub seed: u64,
    /// checksum capability per protocol: 0 = Both, 1 = Tx only, 2 = Rx only, 3 = None
    pub csum: [u8; 5], // ipv4, udp, tcp, icmpv4, icmpv6
    pub fill: Fill,
    pub max_burst: Option<usize>,
    pub slaac: bool,
    pub start_us: i64,
}

impl NodeCfg {
    pub fn basic(name: char, medium: Medium, mtu: usize, idx: u8, v6: bool) -> NodeCfg {
        let addrs = if v6 {
            let mut a = [0u8; 16];
            a[0] = 0xfd;
            a[15] = idx;
            vec![(IpAddr::V6(a), 64)]
        } else {
            vec![(IpAddr::V4([10, 0, 0, idx]), 24)]
        };
        NodeCfg {
            name,
            medium,
            mtu,
            mac: [2, 0, 0, 0, 0, idx],
            ll8: [2, 0, 0, 0, 0, 0, 0, idx],
            ll2: None,
            pan: Some(0xbeef),
            addrs,
            seed: idx as u64,
            csum: [0; 5],
            fill: Fill::Zero,
            max_burst: None,
            slaac: false,
            start_us: 0,
        }
    }
    pub fn view(&self) -> NodeView {
        let tx = |c: u8| c == 0 || c == 1;
        NodeView {
            medium: self.medium,
            mtu: self.mtu,
            addrs: self.addrs.clone(),
            tx_verify: Verify {
                ipv4: tx(self.csum[0]),
                udp: tx(self.csum[1]),
                tcp: tx(self.csum[2]),
                icmp4: tx(self.csum[3]),
                icmp6: tx(self.csum[4]),
                udp4_zero_ok: !tx(self.csum[1]),
            },
            raw_tx: false,
            dhcp: false,
            dhcp_leased_unapplied: vec![],
            dhcp_unmanaged: false,
            slaac_iid: None,
            hw_addr: match self.medium {
                Medium::Ip => vec![],
                Medium::Ethernet => self.mac.to_vec(),
                Medium::Ieee802154 => match self.ll2 {
                    Some(s) => s.to_vec(),
                    None => self.ll8.to_vec(),
                },
            },
        }
    }
    pub fn rx_verifies_all(&self) -> bool {
        self.csum.iter().all(|c| *c == 0 || *c == 2)
    }
}

fn cs(c: u8) -> Checksum {
    match c {
        0 => Checksum::Both,
        1 => Checksum::Tx,
        2 => Checksum::Rx,
        _ => Checksum::None,
    }
}

pub fn build_node(c: &NodeCfg) -> Node {
    let mut dev = SimDevice::new(smol_medium(c.medium), c.mtu);
    let mut caps = ChecksumCapabilities::default();
    caps.ipv4 = cs(c.csum[0]);
    caps.udp = cs(c.csum[1]);
    caps.tcp = cs(c.csum[2]);
    caps.icmpv4 = cs(c.csum[3]);
    caps.icmpv6 = cs(c.csum[4]);
    dev.checksum = caps;
    // what a transmit buffer holds before the stack writes into it: zeros in half of the runs, else all ones or a
    // pseudo-random pattern (recycled DMA buffers) - derived from the node's seed, which every scenario draws per run
    dev.fill = if c.fill != Fill::Zero {
        c.fill
    } else {
        match crate::tape::mix64(c.seed, 0xf111) % 4 {
            0 | 1 => Fill::Zero,
            2 => Fill::Ones,
            _ => Fill::Garbage(c.seed ^ 0x5eed),
        }
    };
    dev.max_burst = c.max_burst;
    let hw = match c.medium {
        Medium::Ip => HardwareAddress::Ip,
        Medium::Ethernet => HardwareAddress::Ethernet(EthernetAddress(c.mac)),
        Medium::Ieee802154 => match c.ll2 {
            Some(s) => HardwareAddress::Ieee802154(Ieee802154Address::Short(s)),
            None => HardwareAddress::Ieee802154(Ieee802154Address::Extended(c.ll8)),
        },
    };
    let mut cfg = Config::new(hw);
    cfg.random_seed = c.seed;
    cfg.slaac = c.slaac;
    if c.medium == Medium::Ieee802154 {
        cfg.pan_id = c.pan.map(Ieee802154Pan);
    }
    let mut iface = Interface::new(cfg, &mut dev, Instant::from_micros(c.start_us));
    iface.update_ip_addrs(|a| {
        for (ip, p) in &c.addrs {
            let _ = a.push(IpCidr::new(to_smol(ip), *p));
        }
    });
    Node {
        iface,
        sockets: SocketSet::new(vec![]),
        dev,
        name: c.name,
    }
}

/// Checksum capability settings of two peers, off the default in one run out of a few: each node's five
/// capabilities (ipv4, udp, tcp, icmpv4, icmpv6) drawn freely, then made compatible - what one side leaves to its
/// device on transmit (emitted unchecksummed here) the other side must not verify. Returns, per node, which
/// checksums it verifies in software on receive (for the link's damage gating).
pub fn draw_checksum_caps(tape: &mut crate::tape::Tape, cfgs: &mut [NodeCfg; 2]) -> [[bool; 5]; 2] {
    for c in cfgs.iter_mut() {
        if tape.draw(8) == 7 {
            for k in 0..5 {
                c.csum[k] = tape.draw(4) as u8;
            }
        }
    }
    for k in 0..5 {
        for i in 0..2 {
            if cfgs[i].csum[k] >= 2 {
                let o = 1 - i;
                cfgs[o].csum[k] = match cfgs[o].csum[k] {
                    0 => 1,
                    2 => 3,
                    x => x,
                };
            }
        }
    }
    let verifies = |c: &NodeCfg| -> [bool; 5] {
        let mut v = [false; 5];
        for k in 0..5 {
            v[k] = c.csum[k] == 0 || c.csum[k] == 2;
        }
        v
    };
    [verifies(&cfgs[0]), verifies(&cfgs[1])]
}
