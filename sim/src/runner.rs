//! Parallel seeded runner, known-findings handling, minimisation, replay, evidence.

use crate::core::*;
use crate::tape::{mix64, Tape};
use serde_json::{json, Value};
use std::collections::{BTreeMap, BTreeSet};
use std::sync::atomic::{AtomicBool, AtomicU64, Ordering};
use std::sync::Mutex;
use std::time::Instant as WallInstant;

pub type ScenFn = fn(&mut Tape, Props, bool, bool) -> Outcome;

pub struct Scen {
    pub name: &'static str,
    pub weight: u32,
    pub run: ScenFn,
}

pub struct CheckDef {
    pub id: &'static str,
    pub props: Props,
    pub scens: Vec<Scen>,
    pub rule: &'static str,
    pub assumptions: Vec<&'static str>,
    pub real: &'static str,
    pub stub: &'static str,
    pub quick_s: f64,
    pub thorough_s: f64,
}

pub const DEFAULT_SEED: u64 = 20260925;

pub fn verif_root() -> String {
    std::env::var("VERIF_ROOT").unwrap_or_else(|_| "/verif".to_string())
}

fn pick_scen(def: &CheckDef, i: u64) -> usize {
    let total: u32 = def.scens.iter().map(|s| s.weight).sum();
    let mut k = (i % total as u64) as u32;
    for (j, s) in def.scens.iter().enumerate() {
        if k < s.weight {
            return j;
        }
        k -= s.weight;
    }
    0
}

pub fn run_seed(seed: u64, i: u64) -> u64 {
    mix64(seed, i.wrapping_mul(2).wrapping_add(1))
}

struct RunRec {
    scen: usize,
    hash: String,
    nontrivial: bool,
    viol: Option<Violation>,
    tape: Option<Vec<u64>>,
    sim_us: i64,
    events: u64,
    cfg: String,
}

pub struct Known {
    pub entries: Vec<(String, String, String)>, // (property, signature, what)
}

pub fn load_known() -> Known {
    let path = format!("{}/known_findings.json", verif_root());
    let mut entries = vec![];
    if let Ok(s) = std::fs::read_to_string(&path) {
        if let Ok(v) = serde_json::from_str::<Value>(&s) {
            if let Some(a) = v.get("findings").and_then(|x| x.as_array()) {
                for e in a {
                    let p = e.get("property").and_then(|x| x.as_str()).unwrap_or("").to_string();
                    let sig = e.get("signature").and_then(|x| x.as_str()).unwrap_or("").to_string();
                    let what = e.get("what").and_then(|x| x.as_str()).unwrap_or("").to_string();
                    if !p.is_empty() && !sig.is_empty() {
                        entries.push((p, sig, what));
                    }
                }
            }
        }
    }
    Known { entries }
}
impl Known {
    pub fn matches(&self, v: &Violation) -> Option<&(String, String, String)> {
        self.entries.iter().find(|(p, s, _)| p == v.prop && *s == v.sig)
    }
    /// Maintenance aid (never used by registered commands): VERIF_TARGET_SIG=<substring> makes the
    /// run hunt for exactly that signature, so that a replay file for a listed finding can be
    /// (re)generated under findings/.
    pub fn retarget(&mut self) {
        if let Ok(t) = std::env::var("VERIF_TARGET_SIG") {
            self.entries.retain(|(_, s, _)| !s.contains(&t));
        }
    }
}

fn watchdog_thread(stop: &'static AtomicBool, id: &'static str) {
    std::thread::spawn(move || {
      let mut last = [0i64; 64];
      let mut ticks = [0u32; 64];
      loop {
        std::thread::sleep(std::time::Duration::from_millis(500));
        if stop.load(Ordering::Relaxed) {
            return;
        }
        for w in 0..64 {
            let t = WATCH[w].load(Ordering::Relaxed);
            if t != 0 && t == last[w] {
                ticks[w] += 1;
            } else {
                last[w] = t;
                ticks[w] = 0;
            }
            // the same call for 60 of the watchdog's own ticks (30 s of this process running)
            if t != 0 && ticks[w] >= 60 {
                let run = WATCH_RUN[w].load(Ordering::Relaxed);
                let idx = WATCH_IDX[w].load(Ordering::Relaxed);
                let path = format!("{}/replays/{}-hang-{}.json", verif_root(), id, run);
                let _ = std::fs::create_dir_all(format!("{}/replays", verif_root()));
                let _ = std::fs::write(
                    &path,
                    serde_json::to_string_pretty(&json!({"property": id, "check": id, "run_seed": run, "run_index": idx, "thorough": WATCH_THOROUGH.load(Ordering::Relaxed), "signature": "hang", "note": "a call into the library did not return while the watchdog of this process ticked 60 times, 30 s (the run never ended, so there is no recorded tape to minimise: the replay re-runs this run_seed under the same watchdog)"})).unwrap(),
                );
                println!("VIOLATION property={} replay={}", id, path);
                std::process::exit(1);
            }
        }
      }
    });
}

static STOP_WD: AtomicBool = AtomicBool::new(false);
static WATCH_THOROUGH: AtomicBool = AtomicBool::new(false);

pub fn run_check(def: &'static CheckDef, thorough: bool, seed: u64, budget_s: f64, max_runs: u64, threads: usize) -> i32 {
    let t0 = WallInstant::now();
    install_panic_hook();
    let mut known = load_known();
    known.retarget();
    STOP_WD.store(false, Ordering::Relaxed);
    WATCH_THOROUGH.store(thorough, Ordering::Relaxed);
    watchdog_thread(&STOP_WD, def.id);
    let next = AtomicU64::new(0);
    let stop = AtomicBool::new(false);
    let recs: Mutex<BTreeMap<u64, RunRec>> = Mutex::new(BTreeMap::new());
    let stats: Mutex<Stats> = Mutex::new(Stats::default());
    let first_unknown: Mutex<Option<u64>> = Mutex::new(None);
    std::thread::scope(|sc| {
        for wi in 0..threads {
            let (next, stop, recs, stats, known, first_unknown) = (&next, &stop, &recs, &stats, &known, &first_unknown);
            sc.spawn(move || {
                WORKER.with(|c| c.set(wi));
                let mut local = Stats::default();
                let mut local_recs: Vec<(u64, RunRec)> = Vec::new();
                loop {
                    if stop.load(Ordering::Relaxed) {
                        break;
                    }
                    let i = next.fetch_add(1, Ordering::Relaxed);
                    if i >= max_runs || t0.elapsed().as_secs_f64() > budget_s {
                        break;
                    }
                    let si = pick_scen(def, i);
                    let rs = run_seed(seed, i);
                    WATCH_RUN[wi].store(rs, Ordering::Relaxed);
                    WATCH_IDX[wi].store(i, Ordering::Relaxed);
                    let mut tape = Tape::record(rs);
                    let t_run = WallInstant::now();
                    let out = run_scen(def, si, &mut tape, thorough, false);
                    let ms = t_run.elapsed().as_millis() as u64;
                    if ms >= 3000 && std::env::var_os("VERIF_SHOW_SLOW").is_some() {
                        eprintln!("[slow] run {} (scenario {}) took {} ms: {}", i, def.scens[si].name, ms, out.cfg_desc);
                    }
                    local.merge(&out.stats);
                    local.inc("runs");
                    let mut viol = out.viol;
                    // violations of properties this check does not own are counted, not reported
                    if let Some(v) = &viol {
                        if v.prop != def.id {
                            local.inc("other-property-violations");
                            if std::env::var_os("VERIF_SHOW_OTHER").is_some() {
                                eprintln!("[other] run {} seed {}: {} :: {}", i, rs, v.sig, v.detail);
                            }
                            viol = None;
                        }
                    }
                    let keep_tape = viol.is_some();
                    if let Some(v) = &viol {
                        if known.matches(v).is_none() {
                            let mut f = first_unknown.lock().unwrap();
                            if f.map(|x| i < x).unwrap_or(true) {
                                *f = Some(i);
                            }
                            // let lower-indexed runs finish; stop handing out new ones
                            stop.store(true, Ordering::Relaxed);
                        }
                    }
                    local_recs.push((
                        i,
                        RunRec { scen: si, hash: out.hash.hex(), nontrivial: out.nontrivial, viol, tape: if keep_tape { Some(tape.rec.clone()) } else { None }, sim_us: out.sim_us, events: out.events, cfg: out.cfg_desc },
                    ));
                    if local_recs.len() >= 64 {
                        let mut r = recs.lock().unwrap();
                        for (k, v) in local_recs.drain(..) {
                            r.insert(k, v);
                        }
                    }
                }
                let mut r = recs.lock().unwrap();
                for (k, v) in local_recs.drain(..) {
                    r.insert(k, v);
                }
                stats.lock().unwrap().merge(&local);
            });
        }
    });
    STOP_WD.store(true, Ordering::Relaxed);
    let recs = recs.into_inner().unwrap();
    let stats = stats.into_inner().unwrap();
    let wall = t0.elapsed().as_secs_f64();

    // ---- summarise (in run-index order, so output does not depend on thread timing)
    let mut distinct: BTreeSet<&str> = BTreeSet::new();
    let mut sim_us: i128 = 0;
    let mut events: u64 = 0;
    let mut per_scen: BTreeMap<&str, u64> = BTreeMap::new();
    let mut known_hits: BTreeMap<String, (u64, String)> = BTreeMap::new();
    let mut unknown: Option<(u64, &RunRec)> = None;
    for (i, r) in &recs {
        if r.nontrivial {
            distinct.insert(&r.hash);
        }
        sim_us += r.sim_us as i128;
        events += r.events;
        *per_scen.entry(def.scens[r.scen].name).or_insert(0) += 1;
        if let Some(v) = &r.viol {
            match known.matches(v) {
                Some((_, sig, what)) => {
                    let e = known_hits.entry(sig.clone()).or_insert((0, what.clone()));
                    e.0 += 1;
                }
                None => {
                    if unknown.is_none() {
                        unknown = Some((*i, r));
                    }
                }
            }
        }
    }
    for (sig, (n, what)) in &known_hits {
        println!("KNOWN-FINDING: property={} {} [signature {} reproduced in {} runs]", def.id, what, sig, n);
    }
    let mut exit = 0;
    let mut violations = 0;
    let mut replay_path = String::new();
    if let Some((i, r)) = unknown {
        violations = 1;
        let v = r.viol.as_ref().unwrap();
        let tape = r.tape.clone().unwrap();
        eprintln!("[{}] violation in run {} (seed {}): {} :: {}", def.id, i, run_seed(seed, i), v.sig, v.detail.chars().take(600).collect::<String>());
        let (min_tape, tries) = minimise(def, r.scen, thorough, &tape, v, 60.0);
        let path = write_replay(def, r.scen, thorough, seed, i, &min_tape, tape.len(), tries);
        replay_path = path.clone();
        println!("VIOLATION property={} replay={}", def.id, path);
        exit = 1;
    }
    // ---- evidence
    let samples: Vec<Value> = recs
        .iter()
        .filter(|(_, r)| r.nontrivial)
        .take(3)
        .chain(recs.iter().take(1))
        .map(|(i, r)| json!({"run_index": i, "run_seed": run_seed(seed, *i), "scenario": def.scens[r.scen].name, "config": r.cfg, "simulated_seconds": r.sim_us as f64 / 1e6, "events": r.events, "event_log_hash": r.hash}))
        .collect();
    let n = recs.len() as u64;
    let faults: BTreeMap<&str, u64> = stats.c.iter().filter(|(k, _)| k.starts_with("fault.")).map(|(k, v)| (*k, *v)).collect();
    let probes: BTreeMap<&str, u64> = stats.c.iter().filter(|(k, _)| !k.starts_with("fault.")).map(|(k, v)| (*k, *v)).collect();
    let ev = json!({
        "property_id": def.id,
        "tier": if thorough { "thorough" } else { "quick" },
        "seed": seed,
        "level": "exploration",
        "wall_s": wall,
        "violations": violations,
        "coverage": {
            "evaluations": n,
            "distinct_nontrivial": distinct.len(),
            "rule": def.rule,
            "samples": samples,
            "runs_per_hour": if wall > 0.0 { (n as f64 / wall * 3600.0) as u64 } else { 0 },
            "simulated_seconds_total": (sim_us / 1_000_000) as i64,
            "simulator_events_total": events,
            "runs_per_scenario": per_scen,
            "faults_fired": faults,
            "reach_probes_and_counters": probes,
            "distinct_state_tuples_visited": stats.cov.len(),
            "state_tuple_measure": "distinct (node, protocol state, queue-occupancy flags) tuples observed after polls, scenario-defined",
            "components_real": def.real,
            "components_stub": def.stub,
            "build_variant": crate::core::build_variant(),
            "wide_variant_run": std::env::var("VERIF_WIDE_SUMMARY").unwrap_or_else(|_| "not part of this tier".to_string()),
            "fast_profile_run": std::env::var("VERIF_FAST_SUMMARY").unwrap_or_else(|_| "not part of this check / tier".to_string()),
            "build_profile": if cfg!(debug_assertions) { "release + debug-assertions + overflow-checks" } else { "release" },
            "known_findings_reproduced": known_hits.iter().map(|(k, (n, _))| json!({"signature": k, "runs": n})).collect::<Vec<_>>(),
            "replay": replay_path,
            "threads": threads,
        },
        "assumptions": def.assumptions,
    });
    // (maintenance: sensitivity runs against seeded changes write their evidence elsewhere)
    let dir = std::env::var("VERIF_EVIDENCE_DIR").unwrap_or_else(|_| format!("{}/evidence", verif_root()));
    let _ = std::fs::create_dir_all(&dir);
    if let Err(e) = std::fs::write(format!("{}/{}.json", dir, def.id), serde_json::to_string_pretty(&ev).unwrap()) {
        eprintln!("cannot write evidence: {}", e);
        return 2;
    }
    eprintln!(
        "[{}] {} runs ({} distinct non-trivial) in {:.1}s, {} simulated s, {} known-finding runs, exit {}",
        def.id,
        n,
        distinct.len(),
        wall,
        sim_us / 1_000_000,
        known_hits.values().map(|x| x.0).sum::<u64>(),
        exit
    );
    if n < 2 || distinct.len() < 2 {
        eprintln!("[{}] harness error: too few runs / distinct non-trivial runs", def.id);
        if exit == 0 {
            return 2;
        }
    }
    exit
}

/// One execution of a scenario of a check. A panic of the stack itself (caught at the API call it happened in)
/// while a check's scenario runs is a violation for that check too, not only for C03: whatever the property promises
/// about the inputs of that run, the stack did not do it.
pub fn run_scen(def: &CheckDef, si: usize, tape: &mut Tape, thorough: bool, trace_on: bool) -> Outcome {
    let mut out = (def.scens[si].run)(tape, def.props, thorough, trace_on);
    if let Some(v) = out.viol.as_mut() {
        if v.prop == "C03" && v.oracle == "no-unwind" && def.id != "C03" {
            v.prop = def.id;
            v.sig = format!("{}.{}", def.id, v.sig);
            v.detail = format!("the stack panicked in a run of this property's scenario: {}", v.detail);
        }
    }
    out
}

fn same_violation(out: &Outcome, want: &Violation) -> bool {
    match &out.viol {
        Some(v) => v.prop == want.prop && v.sig == want.sig,
        None => false,
    }
}

/// Shrink the tape while the same signature recurs.
pub fn minimise(def: &CheckDef, scen: usize, thorough: bool, tape: &[u64], want: &Violation, budget_s: f64) -> (Vec<u64>, u32) {
    let t0 = WallInstant::now();
    let mut tries = 0u32;
    let mut test = |cand: &[u64], tries: &mut u32| -> bool {
        *tries += 1;
        let mut t = Tape::replay(cand.to_vec());
        let out = run_scen(def, scen, &mut t, thorough, false);
        same_violation(&out, want)
    };
    let mut cur = tape.to_vec();
    if !test(&cur, &mut tries) {
        eprintln!("minimise: recorded tape does not reproduce (harness nondeterminism?)");
        return (cur, tries);
    }
    let over = |tries: u32| tries > 3000 || t0.elapsed().as_secs_f64() > budget_s;
    // 1. truncate (an exhausted tape yields zeros)
    let (mut lo, mut hi) = (0usize, cur.len());
    while lo < hi && !over(tries) {
        let mid = (lo + hi) / 2;
        if test(&cur[..mid], &mut tries) {
            hi = mid;
        } else {
            lo = mid + 1;
        }
    }
    if hi < cur.len() && test(&cur[..hi], &mut tries) {
        cur.truncate(hi);
    }
    // 2. delete chunks, 3. zero chunks
    let mut chunk = (cur.len() / 2).max(1);
    while chunk >= 1 && !over(tries) {
        let mut i = 0;
        while i < cur.len() && !over(tries) {
            let end = (i + chunk).min(cur.len());
            // zero
            if cur[i..end].iter().any(|x| *x != 0) {
                let mut c = cur.clone();
                for x in &mut c[i..end] {
                    *x = 0;
                }
                if test(&c, &mut tries) {
                    cur = c;
                    i = end;
                    continue;
                }
            }
            // delete
            if i >= 40 {
                // (the first draws are the configuration; deleting there shifts meaning wildly)
                let mut c = cur.clone();
                c.drain(i..end);
                if test(&c, &mut tries) {
                    cur = c;
                    continue;
                }
            }
            i = end;
        }
        if chunk == 1 {
            break;
        }
        chunk /= 2;
    }
    // 4. shrink single values
    let mut i = 0;
    while i < cur.len() && !over(tries) {
        let mut v = cur[i];
        while v > 0 && !over(tries) {
            let nv = v / 2;
            let mut c = cur.clone();
            c[i] = nv;
            if test(&c, &mut tries) {
                cur = c;
                v = nv;
            } else {
                break;
            }
        }
        i += 1;
    }
    while cur.last() == Some(&0) {
        cur.pop();
    }
    (cur, tries)
}

fn write_replay(def: &CheckDef, scen: usize, thorough: bool, seed: u64, run_index: u64, tape: &[u64], orig_len: usize, tries: u32) -> String {
    // final traced execution of the minimised tape
    let mut t = Tape::replay(tape.to_vec());
    let out = run_scen(def, scen, &mut t, thorough, true);
    let v = out.viol.clone();
    let dir = format!("{}/replays", verif_root());
    let _ = std::fs::create_dir_all(&dir);
    let path = format!("{}/{}-{}.json", dir, def.id, run_seed(seed, run_index));
    let tail: Vec<&String> = out.trace.iter().rev().take(400).collect::<Vec<_>>().into_iter().rev().collect();
    let j = json!({
        "property": def.id,
        "check": def.id,
        "scenario": def.scens[scen].name,
        "thorough": thorough,
        "verif_seed": seed,
        "run_index": run_index,
        "run_seed": run_seed(seed, run_index),
        "signature": v.as_ref().map(|v| v.sig.clone()),
        "oracle": v.as_ref().map(|v| v.oracle),
        "detail": v.as_ref().map(|v| v.detail.clone()),
        "config": out.cfg_desc,
        "tape_len_original": orig_len,
        "minimise_executions": tries,
        "tape": tape,
        "schedule_and_fault_trace_tail": tail,
    });
    let _ = std::fs::write(&path, serde_json::to_string_pretty(&j).unwrap());
    path
}

/// Re-execute a replay file in this (fresh) process. Exit 1 + VIOLATION line when it reproduces.
pub fn replay_file(defs: &'static [CheckDef], path: &str) -> i32 {
    install_panic_hook();
    let Ok(s) = std::fs::read_to_string(path) else {
        eprintln!("cannot read {}", path);
        return 2;
    };
    let Ok(j) = serde_json::from_str::<Value>(&s) else {
        eprintln!("bad json");
        return 2;
    };
    let id = j["check"].as_str().unwrap_or("");
    let Some(def) = defs.iter().find(|d| d.id == id) else {
        eprintln!("unknown check {}", id);
        return 2;
    };
    if j["signature"].as_str() == Some("hang") {
        // the recorded run never returned: run the same seed again under the same watchdog (which prints the
        // VIOLATION line and exits 1 when the library call again fails to return)
        let (rs, idx) = (j["run_seed"].as_u64().unwrap_or(0), j["run_index"].as_u64().unwrap_or(0));
        let thorough = j["thorough"].as_bool().unwrap_or(false);
        STOP_WD.store(false, Ordering::Relaxed);
        WATCH_THOROUGH.store(thorough, Ordering::Relaxed);
        watchdog_thread(&STOP_WD, def.id);
        WORKER.with(|c| c.set(0));
        WATCH_RUN[0].store(rs, Ordering::Relaxed);
        WATCH_IDX[0].store(idx, Ordering::Relaxed);
        let mut t = Tape::record(rs);
        let out = run_scen(def, pick_scen(def, idx), &mut t, thorough, false);
        STOP_WD.store(true, Ordering::Relaxed);
        eprintln!("replay of a recorded hang returned (violation: {:?})", out.viol.map(|v| v.sig));
        return 2;
    }
    let sname = j["scenario"].as_str().unwrap_or("");
    let Some(si) = def.scens.iter().position(|s| s.name == sname) else {
        eprintln!("unknown scenario {}", sname);
        return 2;
    };
    let thorough = j["thorough"].as_bool().unwrap_or(false);
    let tape: Vec<u64> = j["tape"].as_array().map(|a| a.iter().map(|x| x.as_u64().unwrap_or(0)).collect()).unwrap_or_default();
    let mut t = Tape::replay(tape);
    let out = run_scen(def, si, &mut t, thorough, true);
    for l in &out.trace {
        println!("{}", l);
    }
    println!("config: {}", out.cfg_desc);
    match &out.viol {
        Some(v) => {
            println!("signature: {}", v.sig);
            println!("detail: {}", v.detail);
            let want = j["signature"].as_str().unwrap_or("");
            if v.sig == want {
                println!("VIOLATION property={} replay={}", v.prop, path);
                1
            } else {
                eprintln!("replay produced a different signature (wanted {})", want);
                2
            }
        }
        None => {
            eprintln!("replay did not reproduce a violation");
            if j["signature"].is_null() {
                0
            } else {
                2
            }
        }
    }
}

/// Determinism self-check: every run twice in-process; hashes must agree.
pub fn selfcheck_determinism(def: &'static CheckDef, n: u64, seed: u64, threads: usize) -> i32 {
    install_panic_hook();
    let next = AtomicU64::new(0);
    let bad = AtomicU64::new(0);
    let hashes: Mutex<BTreeMap<u64, String>> = Mutex::new(BTreeMap::new());
    std::thread::scope(|sc| {
        for wi in 0..threads {
            let (next, bad, hashes) = (&next, &bad, &hashes);
            sc.spawn(move || {
                WORKER.with(|c| c.set(wi));
                loop {
                    let i = next.fetch_add(1, Ordering::Relaxed);
                    if i >= n {
                        break;
                    }
                    let si = pick_scen(def, i);
                    let rs = run_seed(seed, i);
                    let mut t1 = Tape::record(rs);
                    let o1 = run_scen(def, si, &mut t1, false, false);
                    let mut t2 = Tape::record(rs);
                    let o2 = run_scen(def, si, &mut t2, false, false);
                    // and once from the recorded tape
                    let mut t3 = Tape::replay(t1.rec.clone());
                    let o3 = run_scen(def, si, &mut t3, false, false);
                    let h = o1.hash.hex();
                    if h != o2.hash.hex() || h != o3.hash.hex() || t1.rec != t2.rec || o1.viol.as_ref().map(|v| &v.sig) != o3.viol.as_ref().map(|v| &v.sig) {
                        bad.fetch_add(1, Ordering::Relaxed);
                        eprintln!("NONDETERMINISM check={} run={} scen={}", def.id, i, def.scens[si].name);
                    }
                    hashes.lock().unwrap().insert(i, h);
                }
            });
        }
    });
    // print a digest so that separate processes / worker counts can be diffed
    let h = hashes.into_inner().unwrap();
    let mut d = crate::tape::LogHash::new();
    for (i, x) in &h {
        d.u64(*i);
        d.str(x);
    }
    println!("determinism {} runs={} digest={} mismatches={}", def.id, h.len(), d.hex(), bad.load(Ordering::Relaxed));
    if bad.load(Ordering::Relaxed) > 0 {
        2
    } else {
        0
    }
}
