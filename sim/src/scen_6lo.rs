//! C20: two real nodes on IEEE 802.15.4 / 6LoWPAN.  Every frame a node transmits is decoded,
//! reassembled and decompressed by the harness's own RFC 4944 / RFC 6282 codec (sender-side oracle:
//! the datagram on the wire is the datagram the application asked for), and everything the peer's
//! sockets deliver is compared with those independently recovered datagrams (receiver-side oracle:
//! exactly a datagram that was sent and completely delivered, or nothing).  The link permutes, drops
//! and duplicates frames in the faulty modes and is reliable and in order otherwise, where loss of
//! any datagram is a violation.

use crate::codec::*;
use crate::codec6lo::*;
use crate::core::*;
use crate::mk::*;
use crate::tape::{mix64, LogHash, Tape};
use smoltcp::iface::SocketHandle;
use smoltcp::socket::{icmp, raw, tcp, udp};
use smoltcp::wire::{IpAddress, IpEndpoint, Ipv6Address, SixlowpanAddressContext};

const PAN: u16 = 0xbeef;
const CTX_PREFIX: [u8; 8] = [0x20, 0x01, 0x0d, 0xb8, 0, 1, 0, 0];
/// frames the 6LoWPAN layer may hand to an 802.15.4 radio: 127 octets minus the 2-octet FCS
const MAX_FRAME: usize = 125;
/// FRAGMENTATION_BUFFER_SIZE / REASSEMBLY_BUFFER_SIZE of the default build
const FRAG_BUF: usize = 1500;

#[derive(Clone, Debug)]
struct UdpSend {
    sport: u16,
    dport: u16,
    dst: [u8; 16],
    hop: u8,
    payload: Vec<u8>,
    t: i64,
    /// the uncompressed IPv6 datagram exceeds the fragmentation / reassembly buffer size: it need not be sent
    /// (the sender compares the compressed size) and cannot be delivered
    oversize: bool,
    /// even the smallest compressed form exceeds the fragmentation buffer: nothing may come of it
    hopeless: bool,
}

#[derive(Clone, Debug)]
struct EchoSend {
    ident: u16,
    seq: u16,
    dst: [u8; 16],
    data: Vec<u8>,
    hop: u8,
    t: i64,
    oversize: bool,
    hopeless: bool,
    on_wire: bool,
    answered: bool,
}

/// A datagram recovered from a node's frames by the independent codec.
struct Dg {
    ip6: Vec<u8>,
    pkt: Packet,
    /// per frame of this datagram: how often the link delivered it to the peer
    frame_deliveries: Vec<u32>,
    /// how often the peer's sockets handed it to the application
    app_deliveries: u32,
    fragmented: bool,
    t: i64,
}

struct TxReasm {
    tag: u16,
    size: usize,
    buf: Vec<u8>,
    dg: usize,
    /// link-layer source of the FRAG1 frame: the reassembly key at the receiver, so every FRAGN has to repeat it
    src: Addr154,
}

struct Side {
    node: Node,
    view: crate::tap::NodeView,
    /// compressed header length (IPHC + NHC octets) seen on the wire per UDP flow (destination, ports, hop limit):
    /// constant for a flow, so the compressed size of a later datagram of the same flow is known exactly
    flow_hdr: Vec<(([u8; 16], u16, u16, u8), usize)>,
    ll: Addr154,
    addrs: Vec<[u8; 16]>,
    udp: Vec<(SocketHandle, u16, u8)>,
    icmp: SocketHandle,
    raw6: SocketHandle,
    icmp_hop: u8,
    ident: u16,
    tcp: SocketHandle,
    groups: Vec<[u8; 16]>,
    // ---- model
    pend_udp: Vec<UdpSend>,
    echos: Vec<EchoSend>,
    wire: Vec<Dg>,
    reasm: Option<TxReasm>,
    /// this side's application sends datagrams that need the fragmenter
    sends_big: bool,
    /// UDP payloads of frames this side sent that the link damaged (checksum provably wrong): must never be delivered
    damaged: Vec<Vec<u8>>,
    // tcp stream model
    tcp_written: u64,
    tcp_read: u64,
    tcp_key: u64,
}

struct C<'a> {
    tape: &'a mut Tape,
    props: Props,
    s: [Side; 2],
    now: i64,
    stats: Stats,
    hash: LogHash,
    trace: Vec<String>,
    trace_on: bool,
    events: u64,
    ctx: Ctx6,
    /// (deliver_at, seq, to, frame, (dg index on the sender, frame index))
    link: Vec<(i64, u64, usize, Vec<u8>, Option<(usize, usize)>)>,
    link_seq: u64,
    /// 0 reliable in order, 1 reorder + duplicate, 2 reorder + duplicate + drop
    mode: u8,
    faults_on: bool,
    /// epilogue only: the frames of the one datagram each side sends arrive in reverse order (FRAGN before FRAG1)
    reverse_arrival: bool,
    reverse_count: i64,
    tcp_on: bool,
    tcp_dst: [u8; 16],
    tcp_port: u16,
    /// application sends (either side) that may need the fragmenter
    big_sends: u32,
}

impl<'a> C<'a> {
    fn log(&mut self, f: impl FnOnce() -> String) {
        if self.trace_on && self.trace.len() < 4000 {
            let s = f();
            self.trace.push(format!("t={:>12.6}s {}", self.now as f64 / 1e6, s));
        }
    }
}

fn v6(a: &[u8; 16]) -> IpAddress {
    IpAddress::Ipv6(Ipv6Address::from(*a))
}
fn show6(a: &[u8; 16]) -> String {
    format!("{}", Ipv6Address::from(*a))
}

fn payload_bytes(key: u64, n: usize) -> Vec<u8> {
    (0..n).map(|i| (mix64(key, i as u64 / 8) >> ((i % 8) * 8)) as u8).collect()
}

fn ll_iid(ll: &Addr154) -> [u8; 8] {
    ll.iid().unwrap()
}

fn with_iid(prefix: &[u8; 8], iid: &[u8; 8]) -> [u8; 16] {
    let mut a = [0u8; 16];
    a[..8].copy_from_slice(prefix);
    a[8..].copy_from_slice(iid);
    a
}

const LL_PREFIX: [u8; 8] = [0xfe, 0x80, 0, 0, 0, 0, 0, 0];

fn port_of_class(t: &mut Tape, class: u8) -> u16 {
    match class {
        0 => 0xf0b0 + t.draw(16) as u16,
        1 => {
            // 8-bit compressible but not 4-bit compressible
            let lo = t.draw(256) as u16;
            if lo & 0xf0 == 0xb0 {
                0xf000 + (lo & 0x0f)
            } else {
                0xf000 + lo
            }
        }
        _ => *t.pick(&[5683u16, 1, 61615, 0xf100, 0xefff, 65535, 53, 0xb0f0]),
    }
}

fn build_side(tape: &mut Tape, idx: usize, desc: &mut String) -> Side {
    let mut cfg = NodeCfg::basic(if idx == 0 { 'A' } else { 'B' }, Medium::Ieee802154, MAX_FRAME, idx as u8 + 1, true);
    cfg.addrs.clear();
    // the device's MTU capability is the IP-level MTU (TCP derives its MSS from it); the frames themselves
    // are limited to 125 octets by the 6LoWPAN layer whatever it says
    cfg.mtu = *tape.pick(&[MAX_FRAME, 1280, 1500, MAX_FRAME]);
    cfg.pan = Some(PAN);
    cfg.seed = 11 + tape.draw(1 << 16) + idx as u64;
    // (smoltcp's neighbour discovery only understands 8-octet link-layer address options, so a node with a
    // short hardware address can exchange multicast traffic only; kept to a minority of runs)
    let short = tape.draw(10) == 9;
    let mut e = [0u8; 8];
    for (i, b) in e.iter_mut().enumerate() {
        *b = mix64(0x6c6f + idx as u64, tape.draw(1 << 20) + i as u64) as u8;
    }
    e[0] &= 0xfe; // not a group address
    match tape.draw(4) {
        0 => e = [2, 0, 0, 0, 0, 0, 0, idx as u8 + 1],
        1 => {
            // an extended address of the form the 16-bit compression expects (0000:00ff:fe00:XXXX with the U bit)
            e = [2, 0, 0, 0xff, 0xfe, 0, e[6], e[7]];
        }
        _ => {}
    }
    cfg.ll8 = e;
    let ll = if short {
        let s = [mix64(77, tape.draw(1 << 16)) as u8 & 0x7f, idx as u8 + 1];
        cfg.ll2 = Some(s);
        Addr154::Short(s)
    } else {
        Addr154::Ext(e)
    };
    let iid = ll_iid(&ll);
    let mut addrs = vec![with_iid(&LL_PREFIX, &iid)];
    let kind = tape.draw(9);
    let mut rnd = [0u8; 8];
    for (i, b) in rnd.iter_mut().enumerate() {
        *b = mix64(0xadd0 + idx as u64, tape.draw(1 << 20) + i as u64) as u8;
    }
    match kind {
        0 => {}
        1 => addrs.push(with_iid(&CTX_PREFIX, &iid)),
        2 => addrs.push(with_iid(&CTX_PREFIX, &rnd)),
        3 => addrs.push(with_iid(&[0x20, 0x01, 0x0d, 0xb9, rnd[0], rnd[1], 0, idx as u8], &rnd)),
        4 => addrs.push(with_iid(&LL_PREFIX, &rnd)),
        5 => addrs.push(with_iid(&CTX_PREFIX, &[0, 0, 0, 0xff, 0xfe, 0, rnd[0], rnd[1]])),
        // inside fe80::/10 but not of the form fe80::/64 that IPHC can compress statelessly: with the interface
        // identifier of the link-layer address, or a random one
        7 => addrs.push(with_iid(&[0xfe, 0x80, 0, 0, 0, 0, 0, 7], &iid)),
        8 => addrs.push(with_iid(&[0xfe, 0xbf, rnd[2], rnd[3], 0, 0, 0, rnd[4]], if rnd[5] & 1 == 0 { &iid } else { &rnd })),
        _ => addrs.push(with_iid(&LL_PREFIX, &[0, 0, 0, 0xff, 0xfe, 0, rnd[0], rnd[1]])),
    }
    // the first address must stay the one derived from the link-layer address in most runs, not all
    if addrs.len() == 2 && tape.draw(4) == 0 {
        addrs.swap(0, 1);
    }
    for a in &addrs {
        cfg.addrs.push((IpAddr::V6(*a), 64));
    }
    let mut node = build_node(&cfg);
    let view = cfg.view();
    if tape.draw(2) == 0 {
        let _ = node.iface.sixlowpan_address_context_mut().push(SixlowpanAddressContext(CTX_PREFIX));
    }
    // sockets
    let mut udps = vec![];
    for k in 0..3u8 {
        let class = if k < 2 { k } else { 2 };
        let mut port = port_of_class(tape, class);
        while udps.iter().any(|(_, p, _)| *p == port) {
            port = port.wrapping_add(1).max(1);
        }
        let mut s = udp::Socket::new(
            udp::PacketBuffer::new(vec![udp::PacketMetadata::EMPTY; 64], vec![0u8; 1 << 16]),
            udp::PacketBuffer::new(vec![udp::PacketMetadata::EMPTY; 8], vec![0u8; 8192]),
        );
        s.bind(port).unwrap();
        let hop = match tape.draw(6) {
            0 => Some(1u8),
            1 => Some(255),
            2 => Some(64),
            3 => Some(2 + tape.draw(250) as u8),
            _ => None,
        };
        s.set_hop_limit(hop);
        let h = node.sockets.add(s);
        udps.push((h, port, hop.unwrap_or(64)));
    }
    let ident = 0x1000 + tape.draw(0x1000) as u16 + idx as u16 * 0x4000;
    let mut ic = icmp::Socket::new(
        icmp::PacketBuffer::new(vec![icmp::PacketMetadata::EMPTY; 32], vec![0u8; 1 << 15]),
        icmp::PacketBuffer::new(vec![icmp::PacketMetadata::EMPTY; 8], vec![0u8; 8192]),
    );
    ic.bind(icmp::Endpoint::Ident(ident)).unwrap();
    // hop limits that IPHC cannot compress (anything but 1, 64, 255) travel in-line, next to an in-line
    // next-header octet for ICMPv6 and TCP
    let icmp_hop = match tape.draw(4) {
        0 => Some(2 + tape.draw(250) as u8),
        1 => Some(*tape.pick(&[1u8, 255, 63, 65])),
        _ => None,
    };
    ic.set_hop_limit(icmp_hop);
    let icmp_h = node.sockets.add(ic);
    // a raw socket for ICMPv6 sees every ICMPv6 datagram the node decompresses, header included (the only place where
    // fields such as the hop limit of a received datagram can be observed)
    let raw6 = node.sockets.add(raw::Socket::new(
        Some(smoltcp::wire::IpVersion::Ipv6),
        Some(smoltcp::wire::IpProtocol::Icmpv6),
        raw::PacketBuffer::new(vec![raw::PacketMetadata::EMPTY; 32], vec![0u8; 16384]),
        raw::PacketBuffer::new(vec![raw::PacketMetadata::EMPTY; 1], vec![0u8; 64]),
    ));
    let mut ts = tcp::Socket::new(tcp::SocketBuffer::new(vec![0; 2048]), tcp::SocketBuffer::new(vec![0; 2048]));
    if tape.draw(3) == 0 {
        ts.set_hop_limit(Some(2 + tape.draw(250) as u8));
    }
    let tcp_h = node.sockets.add(ts);
    desc.push_str(&format!(
        " {}: mtu={} ll={:?} addrs=[{}] udp-ports={:?} ident={:#x} ctx={}",
        cfg.name,
        cfg.mtu,
        ll,
        addrs.iter().map(show6).collect::<Vec<_>>().join(","),
        udps.iter().map(|(_, p, h)| format!("{:#x}/hl{}", p, h)).collect::<Vec<_>>(),
        ident,
        node.iface.sixlowpan_address_context().len()
    ));
    Side {
        node,
        view,
        flow_hdr: vec![],
        ll,
        addrs,
        udp: udps,
        icmp: icmp_h,
        raw6,
        icmp_hop: icmp_hop.unwrap_or(64),
        ident,
        tcp: tcp_h,
        groups: vec![],
        pend_udp: vec![],
        echos: vec![],
        wire: vec![],
        reasm: None,
        sends_big: false,
        damaged: vec![],
        tcp_written: 0,
        tcp_read: 0,
        tcp_key: 0x7c9 + idx as u64,
    }
}

pub fn run(tape: &mut Tape, props: Props, thorough: bool, trace_on: bool) -> Outcome {
    let mut desc = String::from("6lowpan-pair");
    let a = build_side(tape, 0, &mut desc);
    let b = build_side(tape, 1, &mut desc);
    let mode = match tape.draw(8) {
        0..=3 => 0u8,
        4 | 5 => 1,
        _ => 2,
    };
    let tcp_on = tape.draw(3) == 0;
    desc.push_str(&format!(" link-mode={} tcp={}", mode, tcp_on));
    let mut c = C {
        tape,
        props,
        s: [a, b],
        now: 0,
        stats: Stats::default(),
        hash: LogHash::new(),
        trace: vec![],
        trace_on,
        events: 0,
        ctx: vec![(
            {
                let mut p = [0u8; 16];
                p[..8].copy_from_slice(&CTX_PREFIX);
                p
            },
            64,
        )],
        link: vec![],
        link_seq: 0,
        mode,
        faults_on: mode != 0,
        reverse_arrival: false,
        reverse_count: 0,
        tcp_on,
        tcp_dst: [0; 16],
        tcp_port: 0,
        big_sends: 0,
    };
    // each node reaches foreign prefixes through the other one
    for i in 0..2 {
        let peer_ll_addr = with_iid(&LL_PREFIX, &ll_iid(&c.s[1 - i].ll));
        let _ = c.s[i].node.iface.routes_mut().add_default_ipv6_route(Ipv6Address::from(peer_ll_addr));
    }
    let r = body(&mut c, thorough);
    // under C09 (datagram sockets, here on the 6LoWPAN medium) only the verdicts about what the sockets sent and were
    // handed count; everything about the adaptation layer's own format belongs to C20
    let r = match r {
        Err(mut e) if e.prop == "C20" && !c.props.has("C20") => {
            const DATAGRAM_VERDICTS: [&str; 5] = ["C20.compress/udp-on-wire-differs-from-send", "C20.compress/echo-on-wire-differs-from-send", "C20.deliver/udp-differs-from-what-was-sent", "C20.deliver/address-family", "C20.lossless/udp-send-never-reached-the-wire"];
            if c.props.has("C09") && DATAGRAM_VERDICTS.iter().any(|w| e.sig.starts_with(w)) {
                e.prop = "C09";
                e.sig = e.sig.replacen("C20.", "C09.6lowpan-", 1);
                Err(e)
            } else {
                Ok(())
            }
        }
        other => other,
    };
    let nontrivial = c.stats.get("6lo.fragmented-datagrams") >= 1 && c.stats.get("6lo.app-deliveries") >= 2;
    c.stats.add("sim.seconds", (c.now / 1_000_000) as u64);
    Outcome { viol: r.err(), stats: c.stats, hash: c.hash, nontrivial, trace: c.trace, sim_us: c.now, events: c.events, cfg_desc: desc }
}

fn v(sig: impl Into<String>, oracle: &'static str, detail: String) -> Violation {
    viol("C20", oracle, sig, detail)
}

/// Sender-side oracle: decode one emitted frame with the independent codec.
fn on_tx(c: &mut C, i: usize, raw: &[u8]) -> Result<Option<(usize, usize)>, Violation> {
    c.hash.bytes(raw);
    c.stats.inc("frames.tx");
    let on = (c.props.has("C20") || c.props.has("C09"));
    if raw.len() > MAX_FRAME && on {
        return Err(v("C20.frame/exceeds-802.15.4-frame", "frame-size", format!("node {} emitted a frame of {} octets; an IEEE 802.15.4 frame carries at most {} (127 minus FCS)", c.s[i].node.name, raw.len(), MAX_FRAME)));
    }
    let f = match dec_154(raw) {
        Ok(f) => f,
        Err(e) => {
            if on {
                return Err(v("C20.frame/undecodable-802.15.4-header", "frame", format!("{} ; frame={}", e, hexs(raw))));
            }
            return Ok(None);
        }
    };
    if f.frame_type != 1 {
        return Ok(None);
    }
    // (the later fragments of a datagram that was leaving while the application changed the hardware address keep
    // the address the first fragment went out with)
    let fragn_of_current = c.s[i].reasm.as_ref().map(|r| r.src == f.src).unwrap_or(false) && f.payload.first().map(|d| d & 0xf8 == 0xe0).unwrap_or(false);
    if on && f.src != c.s[i].ll && !fragn_of_current {
        return Err(v("C20.frame/link-layer-source", "frame", format!("frame from node {} carries link-layer source {:?}, the node's address is {:?}", c.s[i].node.name, f.src, c.s[i].ll)));
    }
    if f.payload.is_empty() {
        return if on { Err(v("C20.frame/empty", "frame", "data frame without payload".into())) } else { Ok(None) };
    }
    let d0 = f.payload[0];
    let name = c.s[i].node.name;
    if d0 & 0xf8 == 0xc0 || d0 & 0xf8 == 0xe0 {
        let (h, rest) = match dec_frag(&f.payload) {
            Ok(x) => x,
            Err(e) => return if on { Err(v("C20.frag/header", "fragment", format!("{} ; frame={}", e, hexs(raw)))) } else { Ok(None) },
        };
        c.stats.inc("6lo.fragment-frames");
        if h.first {
            if let Some(r) = &c.s[i].reasm {
                if on {
                    return Err(v("C20.frag/new-datagram-before-previous-complete", "fragment", format!("node {} started FRAG1 tag {:#x} while datagram tag {:#x} had {} of {} octets on the wire", name, h.tag, r.tag, r.buf.len(), r.size)));
                }
            }
            let hdr = match dec_iphc(rest, &f.src, &f.dst, &c.ctx) {
                Ok(x) => x,
                Err(e) => return if on { Err(v("C20.compress/undecodable-iphc-in-frag1", "iphc", format!("{} ; frame={}", e, hexs(raw)))) } else { Ok(None) },
            };
            learn_flow(c, i, &hdr);
            let size = h.size as usize;
            if size < 40 + hdr.hdrs.len() + hdr.rest.len() {
                return if on { Err(v("C20.frag/first-fragment-larger-than-datagram", "fragment", format!("datagram_size {} but FRAG1 alone decompresses to {} octets", size, 40 + hdr.hdrs.len() + hdr.rest.len()))) } else { Ok(None) };
            }
            let buf = assemble_ipv6(&hdr, Some(size));
            if on && buf.len() % 8 != 0 && buf.len() != size {
                return Err(v("C20.frag/first-fragment-not-multiple-of-8", "fragment", format!("FRAG1 of datagram tag {:#x} covers {} uncompressed octets (not a multiple of 8) of {}", h.tag, buf.len(), size)));
            }
            let dg = c.s[i].wire.len();
            c.s[i].wire.push(Dg { ip6: vec![], pkt: Packet { eth: None, arp: None, ip: None, l4: None }, frame_deliveries: vec![0], app_deliveries: 0, fragmented: true, t: c.now });
            c.s[i].reasm = Some(TxReasm { tag: h.tag, size, buf, dg, src: f.src.clone() });
            let fi = 0;
            finish_if_complete(c, i)?;
            return Ok(Some((dg, fi)));
        }
        // FRAGN
        let Some(r) = c.s[i].reasm.as_mut() else {
            return if on { Err(v("C20.frag/fragn-without-frag1", "fragment", format!("node {} emitted FRAGN tag {:#x} offset {} with no datagram in progress", name, h.tag, h.offset))) } else { Ok(None) };
        };
        if on && f.src != r.src {
            return Err(v("C20.frag/link-layer-source-changed-within-datagram", "fragment", format!("FRAGN of datagram tag {:#x} carries link-layer source {:?}, its FRAG1 went out with {:?}: the receiver cannot put them together", h.tag, f.src, r.src)));
        }
        if on && (h.tag != r.tag || h.size as usize != r.size) {
            return Err(v("C20.frag/tag-or-size-changed", "fragment", format!("FRAGN carries tag {:#x} size {} but the datagram in progress has tag {:#x} size {}", h.tag, h.size, r.tag, r.size)));
        }
        if on && h.offset != r.buf.len() {
            return Err(v("C20.frag/offset", "fragment", format!("FRAGN offset {} but {} uncompressed octets of datagram tag {:#x} were sent so far", h.offset, r.buf.len(), r.tag)));
        }
        r.buf.extend_from_slice(rest);
        if on && r.buf.len() > r.size {
            return Err(v("C20.frag/beyond-datagram-size", "fragment", format!("fragments of tag {:#x} add up to {} octets, datagram_size is {}", r.tag, r.buf.len(), r.size)));
        }
        if on && r.buf.len() < r.size && rest.len() % 8 != 0 {
            return Err(v("C20.frag/fragment-not-multiple-of-8", "fragment", format!("a non-final FRAGN of tag {:#x} carries {} octets", r.tag, rest.len())));
        }
        let dg = r.dg;
        c.s[i].wire[dg].frame_deliveries.push(0);
        let fi = c.s[i].wire[dg].frame_deliveries.len() - 1;
        finish_if_complete(c, i)?;
        return Ok(Some((dg, fi)));
    }
    if d0 & 0xe0 != 0x60 {
        return if on { Err(v("C20.compress/unknown-dispatch", "iphc", format!("dispatch {:#04x} ; frame={}", d0, hexs(raw)))) } else { Ok(None) };
    }
    let hdr = match dec_iphc(&f.payload, &f.src, &f.dst, &c.ctx) {
        Ok(x) => x,
        Err(e) => return if on { Err(v("C20.compress/undecodable-iphc", "iphc", format!("{} ; frame={}", e, hexs(raw)))) } else { Ok(None) },
    };
    learn_flow(c, i, &hdr);
    let ip6 = assemble_ipv6(&hdr, None);
    let dg = c.s[i].wire.len();
    c.s[i].wire.push(Dg { ip6: vec![], pkt: Packet { eth: None, arp: None, ip: None, l4: None }, frame_deliveries: vec![0], app_deliveries: 0, fragmented: false, t: c.now });
    complete(c, i, dg, ip6)?;
    Ok(Some((dg, 0)))
}

fn learn_flow(c: &mut C, i: usize, hdr: &Iphc) {
    if let Some((at, _)) = hdr.udp_at {
        if hdr.hdrs.len() >= at + 4 {
            let key = (hdr.dst, u16::from_be_bytes([hdr.hdrs[at], hdr.hdrs[at + 1]]), u16::from_be_bytes([hdr.hdrs[at + 2], hdr.hdrs[at + 3]]), hdr.hop);
            if !c.s[i].flow_hdr.iter().any(|(k, _)| *k == key) {
                c.s[i].flow_hdr.push((key, hdr.consumed));
            }
        }
    }
}

fn hexs(b: &[u8]) -> String {
    b.iter().map(|x| format!("{:02x}", x)).collect()
}

fn finish_if_complete(c: &mut C, i: usize) -> Result<(), Violation> {
    let done = c.s[i].reasm.as_ref().map(|r| r.buf.len() == r.size).unwrap_or(false);
    if done {
        let r = c.s[i].reasm.take().unwrap();
        c.stats.inc("6lo.fragmented-datagrams");
        complete(c, i, r.dg, r.buf)?;
    }
    Ok(())
}

/// A whole IPv6 datagram left node i: it must be well-formed and, if it is application traffic,
/// be exactly what the application asked for.
fn complete(c: &mut C, i: usize, dg: usize, ip6: Vec<u8>) -> Result<(), Violation> {
    let on = (c.props.has("C20") || c.props.has("C09"));
    let name = c.s[i].node.name;
    let pkt = match decode_ip(&ip6, &Verify::all(), true) {
        Ok(p) => p,
        Err(e) => {
            let detail = format!("the datagram node {} put on the wire decompresses (independent RFC 6282 decoder) to an invalid packet: {} {} ; ipv6={}", name, e.layer, e.msg, hexs(&ip6[..ip6.len().min(120)]));
            if e.kind == ErrKind::Checksum && c.props.has("C08") {
                return Err(viol("C08", "emitted-valid", format!("C08.emit/6lowpan:{}", e.layer), detail));
            }
            if c.props.has("C10") {
                return Err(viol("C10", "wellformed", format!("C10.6lowpan/decompressed-datagram-invalid:{}", e.layer), detail));
            }
            if on {
                return Err(v(format!("C20.compress/decompressed-datagram-invalid:{}", e.layer), "wire-datagram", detail));
            }
            return Ok(());
        }
    };
    c.stats.inc("6lo.datagrams-on-wire");
    if c.props.has("C10") && matches!(&pkt.l4, Some(L4::Icmp6(_))) {
        // the semantic rules of the wire tap for what the stack itself originates (NDISC options and hop limits,
        // ICMPv6 error sizes, MLD ...) apply to what the frames decompress to just as they do on the other media
        // (UDP payloads here are application data, whatever the port)
        crate::tap::check_packet_semantics(&c.s[i].view, &pkt)?;
    }
    let ip = pkt.ip.clone().unwrap();
    let (src, dst) = match (&ip.src, &ip.dst) {
        (IpAddr::V6(s), IpAddr::V6(d)) => (*s, *d),
        _ => unreachable!(),
    };
    let sm = pkt.summary();
    c.log(|| format!("{} wire: {}", name, sm));
    match &pkt.l4 {
        Some(L4::Udp(u)) => {
            let pos = c.s[i].pend_udp.iter().position(|p| p.sport == u.sport && p.dport == u.dport && p.dst == dst && p.payload == u.payload && p.hop == ip.hop && !p.hopeless);
            match pos {
                Some(p) => {
                    c.s[i].pend_udp.remove(p);
                    c.stats.inc("6lo.udp-on-wire-matches-send");
                }
                None => {
                    if on {
                        let near = c.s[i].pend_udp.iter().find(|p| p.payload == u.payload).or(c.s[i].pend_udp.first());
                        return Err(v(
                            "C20.compress/udp-on-wire-differs-from-send",
                            "wire-datagram",
                            format!(
                                "node {} put UDP {}:{} > {}:{} hop {} len {} on the wire (independent decompression); no pending application send matches; closest pending send: {}",
                                name,
                                show6(&src),
                                u.sport,
                                show6(&dst),
                                u.dport,
                                ip.hop,
                                u.payload.len(),
                                near.map(|p| format!("port {} > {}:{} hop {} len {}{}", p.sport, show6(&p.dst), p.dport, p.hop, p.payload.len(), if p.oversize { " (oversize)" } else { "" })).unwrap_or("none".into())
                            ),
                        ));
                    }
                }
            }
            if on && !c.s[i].addrs.contains(&src) {
                return Err(v("C20.compress/source-address", "wire-datagram", format!("UDP datagram from node {} decompresses to source {} which is not one of its addresses", name, show6(&src))));
            }
        }
        Some(L4::Icmp6(ic)) if ic.typ == 128 => {
            let ident = u16::from_be_bytes([ic.rest[0], ic.rest[1]]);
            let seq = u16::from_be_bytes([ic.rest[2], ic.rest[3]]);
            let pos = c.s[i].echos.iter().position(|e| !e.on_wire && e.ident == ident && e.seq == seq && e.dst == dst && e.data == ic.body && e.hop == ip.hop && !e.hopeless);
            match pos {
                Some(p) => c.s[i].echos[p].on_wire = true,
                None => {
                    if on {
                        return Err(v("C20.compress/echo-on-wire-differs-from-send", "wire-datagram", format!("node {} put an echo request ident {:#x} seq {} to {} hop {} with {} data octets on the wire; no pending request matches", name, ident, seq, show6(&dst), ip.hop, ic.body.len())));
                    }
                }
            }
        }
        _ => {}
    }
    let d = &mut c.s[i].wire[dg];
    d.ip6 = ip6;
    d.pkt = pkt;
    Ok(())
}

fn poll_side(c: &mut C, i: usize) -> Result<(), Violation> {
    c.events += 1;
    // deliver due frames
    c.link.sort_by_key(|e| (e.0, e.1));
    let mut k = 0;
    while k < c.link.len() {
        if c.link[k].0 <= c.now && c.link[k].2 == i {
            let (_, _, _, f, id) = c.link.remove(k);
            if let Some((dg, fi)) = id {
                c.s[1 - i].wire[dg].frame_deliveries[fi] += 1;
            }
            c.hash.bytes(&f);
            c.s[i].node.dev.rx.push_back(f);
            c.stats.inc("frames.delivered");
        } else {
            k += 1;
        }
    }
    c.s[i].node.dev.tx_budget = match c.tape.draw(4) {
        0 => Some(1),
        1 => Some(1 + c.tape.draw(4) as usize),
        _ => None,
    };
    let now = c.now;
    let info = c.s[i].node.poll(now)?;
    for raw in &info.tx {
        let id = on_tx(c, i, raw)?;
        // the link
        let mut copies = 1;
        let mut delay = 1_000i64;
        if c.reverse_arrival {
            // each later frame overtakes the earlier ones
            delay = (80_000 - 2_500 * c.reverse_count).max(1_000);
            c.reverse_count += 1;
        }
        if c.faults_on {
            match c.tape.draw(12) {
                0 if c.mode == 2 => {
                    copies = 0;
                    c.stats.inc("fault.drop");
                }
                1 => {
                    copies = 2;
                    c.stats.inc("fault.dup");
                }
                2 | 3 => {
                    delay += 1_000 * c.tape.range(1, 12) as i64;
                    c.stats.inc("fault.reorder-delay");
                }
                _ => {}
            }
        }
        // bit damage inside the UDP payload of an unfragmented datagram: the checksum provably fails, the
        // frame must be equivalent to no frame (C08 clause 3 on the 6LoWPAN path)
        if copies == 0 {
            if let Some((dg, _)) = id {
                let d = &c.s[i].wire[dg];
                if !d.fragmented {
                    if let Some((_, u)) = d.pkt.udp() {
                        if !u.payload.is_empty() && c.tape.draw(2) == 0 {
                            let k = c.tape.draw(u.payload.len() as u64) as usize;
                            let bit = c.tape.draw(8) as u8;
                            let mut bad = raw.clone();
                            let at = bad.len() - 1 - k;
                            bad[at] ^= 1 << bit;
                            let proven = (|| {
                                let f = dec_154(&bad).ok()?;
                                let h = dec_iphc(&f.payload, &f.src, &f.dst, &c.ctx).ok()?;
                                let ip6 = assemble_ipv6(&h, None);
                                match decode_ip(&ip6, &Verify::all(), true) {
                                    Err(e) if e.kind == ErrKind::Checksum => {
                                        let mut p = u.payload.clone();
                                        let pl = p.len();
                                        p[pl - 1 - k] ^= 1 << bit;
                                        Some(p)
                                    }
                                    _ => None,
                                }
                            })();
                            if let Some(p) = proven {
                                c.s[i].damaged.push(p);
                                c.stats.inc("fault.corrupt-detectable");
                                c.link_seq += 1;
                                c.link.push((c.now + delay, c.link_seq, 1 - i, bad, None));
                            }
                        }
                    }
                }
            }
        }
        for n in 0..copies {
            c.link_seq += 1;
            c.link.push((c.now + delay + n as i64 * 2_500, c.link_seq, 1 - i, raw.clone(), id));
        }
    }
    drain(c, i)?;
    Ok(())
}

/// Receiver-side oracle: whatever the sockets deliver is a datagram the peer sent, completely
/// delivered by the link, with identical content and metadata.
fn drain(c: &mut C, i: usize) -> Result<(), Violation> {
    let on = (c.props.has("C20") || c.props.has("C09"));
    let name = c.s[i].node.name;
    // what the raw ICMPv6 socket saw: each datagram is one the peer put on the wire, header fields included
    loop {
        let h = c.s[i].raw6;
        let so = c.s[i].node.sockets.get_mut::<raw::Socket>(h);
        let r = guard("raw::recv", || so.recv().ok().map(|b| b.to_vec()))?;
        let Some(data) = r else { break };
        if !c.props.has("C20") {
            continue;
        }
        let Ok(p) = decode_ip(&data, &Verify::none(), true) else { continue };
        let (Some(ip), Some(L4::Icmp6(ic))) = (&p.ip, &p.l4) else { continue };
        let mut same_but_hop: Option<u8> = None;
        let mut exact = false;
        for d in &c.s[1 - i].wire {
            if let (Some(dip), Some(L4::Icmp6(dic))) = (&d.pkt.ip, &d.pkt.l4) {
                if dip.src == ip.src && dip.dst == ip.dst && dic.typ == ic.typ && dic.code == ic.code && dic.rest == ic.rest && dic.body == ic.body {
                    if dip.hop == ip.hop {
                        exact = true;
                        break;
                    }
                    same_but_hop = Some(dip.hop);
                }
            }
        }
        c.stats.inc("6lo.raw-icmpv6-seen");
        if let (false, Some(sent)) = (exact, same_but_hop) {
            return Err(v("C20.deliver/hop-limit-differs", "delivery", format!("node {} decompressed an ICMPv6 datagram {} > {} type {} with hop limit {}; the peer sent it with hop limit {}", name, ip.src, ip.dst, ic.typ, ip.hop, sent)));
        }
    }
    for k in 0..c.s[i].udp.len() {
        let (h, port, _) = c.s[i].udp[k];
        loop {
            let so = c.s[i].node.sockets.get_mut::<udp::Socket>(h);
            let r = guard("udp::recv", || so.recv().ok().map(|(b, m)| (b.to_vec(), m)))?;
            let Some((data, meta)) = r else { break };
            c.stats.inc("6lo.app-deliveries");
            c.hash.bytes(&data);
            let IpAddress::Ipv6(sa) = meta.endpoint.addr else {
                return Err(v("C20.deliver/address-family", "delivery", "IPv4 endpoint on a 6LoWPAN link".into()));
            };
            let sa = sa.octets();
            let la = match meta.local_address {
                Some(IpAddress::Ipv6(a)) => Some(a.octets()),
                _ => None,
            };
            let peer = &mut c.s[1 - i];
            let m = peer.wire.iter_mut().find(|d| {
                let Some((ip, u)) = d.pkt.udp() else { return false };
                u.dport == port && u.sport == meta.endpoint.port && ip.src == IpAddr::V6(sa) && la.map(|a| ip.dst == IpAddr::V6(a)).unwrap_or(true) && u.payload == data && d.app_deliveries < *d.frame_deliveries.iter().min().unwrap_or(&0)
            });
            match m {
                Some(d) => d.app_deliveries += 1,
                None => {
                    if peer.damaged.contains(&data) && c.props.has("C08") {
                        return Err(viol(
                            "C08",
                            "corrupt-equals-loss",
                            "C08.rx/6lowpan-udp-with-failing-checksum-delivered",
                            format!("node {} delivered a UDP datagram ({} octets to port {}) whose payload the link had damaged by one bit; the UDP checksum carried in the 6LoWPAN NHC header does not verify, the frame must have been dropped", name, data.len(), port),
                        ));
                    }
                    if on {
                        let near = peer.wire.iter().rev().find(|d| d.pkt.udp().map(|(_, u)| u.dport == port).unwrap_or(false)).map(|d| {
                            let (ip, u) = d.pkt.udp().unwrap();
                            format!("{} > {} sport {} len {} (link deliveries per frame {:?}, app deliveries {})", ip.src, ip.dst, u.sport, u.payload.len(), d.frame_deliveries, d.app_deliveries)
                        });
                        return Err(v(
                            "C20.deliver/udp-differs-from-what-was-sent",
                            "delivery",
                            format!("node {} delivered a UDP datagram from {}:{} to {:?}:{} with {} octets that is not a datagram the peer sent and the link delivered completely; latest datagram to that port: {:?}", name, show6(&sa), meta.endpoint.port, la.map(|a| show6(&a)), port, data.len(), near),
                        ));
                    }
                }
            }
        }
    }
    // echo replies
    loop {
        let h = c.s[i].icmp;
        let so = c.s[i].node.sockets.get_mut::<icmp::Socket>(h);
        let r = guard("icmp::recv", || so.recv().ok().map(|(b, a)| (b.to_vec(), a)))?;
        let Some((msg, from)) = r else { break };
        c.hash.bytes(&msg);
        if msg.len() < 8 || msg[0] != 129 {
            // errors about our own datagrams also arrive here (port unreachable etc.)
            c.stats.inc("6lo.icmp-other-delivered");
            continue;
        }
        c.stats.inc("6lo.app-deliveries");
        let ident = u16::from_be_bytes([msg[4], msg[5]]);
        let seq = u16::from_be_bytes([msg[6], msg[7]]);
        let data = &msg[8..];
        let IpAddress::Ipv6(fa) = from else { continue };
        let fa = fa.octets();
        let e = c.s[i].echos.iter_mut().find(|e| e.on_wire && e.ident == ident && e.seq == seq);
        match e {
            Some(e) if e.data == data && (e.dst[0] == 0xff || e.dst == fa) => {
                e.answered = true;
                c.stats.inc("6lo.echo-replies-verified");
            }
            other => {
                if on {
                    return Err(v(
                        "C20.deliver/echo-reply-differs",
                        "delivery",
                        format!("node {} received an echo reply ident {:#x} seq {} from {} with {} data octets; matching request: {:?}", name, ident, seq, show6(&fa), data.len(), other.map(|e| (show6(&e.dst), e.data.len(), e.data == data))),
                    ));
                }
            }
        }
    }
    // tcp
    if c.tcp_on {
        let h = c.s[i].tcp;
        let key = c.s[1 - i].tcp_key;
        let mut off = c.s[i].tcp_read;
        let so = c.s[i].node.sockets.get_mut::<tcp::Socket>(h);
        let mut bad: Option<(u64, u8, u8)> = None;
        let mut got = 0u64;
        guard("tcp::recv", || {
            while so.can_recv() {
                let r = so.recv(|b| {
                    for (j, x) in b.iter().enumerate() {
                        let want = (mix64(key, (off + j as u64) / 8) >> (((off + j as u64) % 8) * 8)) as u8;
                        if *x != want && bad.is_none() {
                            bad = Some((off + j as u64, *x, want));
                        }
                    }
                    (b.len(), b.len())
                });
                match r {
                    Ok(0) | Err(_) => break,
                    Ok(n) => {
                        off += n as u64;
                        got += n as u64;
                    }
                }
            }
        })?;
        c.s[i].tcp_read = off;
        c.stats.add("6lo.tcp-bytes-delivered", got);
        if let Some((at, x, want)) = bad {
            if on {
                return Err(v("C20.deliver/tcp-stream-byte-differs", "delivery", format!("node {} read byte {:#04x} at stream offset {}, the peer wrote {:#04x}", name, x, at, want)));
            }
        }
        if c.s[i].tcp_read > c.s[1 - i].tcp_written && on {
            return Err(v("C20.deliver/tcp-more-than-written", "delivery", format!("node {} read {} octets, the peer wrote {}", name, c.s[i].tcp_read, c.s[1 - i].tcp_written)));
        }
    }
    Ok(())
}

fn dst_addr(c: &mut C, to: usize) -> [u8; 16] {
    let peer = &c.s[to];
    let n = peer.addrs.len() as u64;
    match c.tape.draw(10) {
        0 => {
            c.stats.inc("6lo.dst.all-nodes");
            let mut a = [0u8; 16];
            a[0] = 0xff;
            a[1] = 0x02;
            a[15] = 1;
            a
        }
        1 => {
            c.stats.inc("6lo.dst.solicited-node");
            let t = peer.addrs[c.tape.draw(n) as usize];
            let mut a = [0u8; 16];
            a[0] = 0xff;
            a[1] = 0x02;
            a[11] = 1;
            a[12] = 0xff;
            a[13..].copy_from_slice(&t[13..]);
            a
        }
        2 if !peer.groups.is_empty() => {
            c.stats.inc("6lo.dst.joined-group");
            let k = c.tape.draw(peer.groups.len() as u64) as usize;
            c.s[to].groups[k]
        }
        _ => {
            c.stats.inc("6lo.dst.unicast");
            peer.addrs[c.tape.draw(n) as usize]
        }
    }
}

fn size_class(c: &mut C) -> usize {
    match c.tape.draw(10) {
        0 => 0,
        1 | 2 => c.tape.range(1, 60) as usize,
        3 | 4 => c.tape.range(60, 130) as usize,
        5 | 6 => c.tape.range(130, 700) as usize,
        7 => c.tape.range(700, 1400) as usize,
        8 => c.tape.range(1400, 1460) as usize,
        _ => c.tape.range(1440, 1700) as usize,
    }
}

fn app_op(c: &mut C) -> Result<(), Violation> {
    let i = c.tape.draw(2) as usize;
    let to = 1 - i;
    match c.tape.draw(10) {
        0..=5 => {
            // UDP
            let k = c.tape.draw(3) as usize;
            let (h, sport, hop) = c.s[i].udp[k];
            let dport = if c.tape.draw(12) == 0 {
                c.stats.inc("6lo.udp-to-unbound-port");
                port_of_class(c.tape, 2).wrapping_add(7)
            } else {
                c.s[to].udp[c.tape.draw(3) as usize].1
            };
            let dst = dst_addr(c, to);
            let mut n = size_class(c);
            // once a datagram of this flow has been seen on the wire its compressed header length is known, and with
            // it exactly which payload still fits the fragmentation buffer after compression: aim at that boundary
            let known = c.s[i].flow_hdr.iter().find(|(k, _)| *k == (dst, sport, dport, hop)).map(|x| x.1);
            if let Some(hl) = known {
                if c.tape.draw(5) == 0 && hl < FRAG_BUF {
                    n = FRAG_BUF - hl - 1 + c.tape.draw(3) as usize;
                    c.stats.inc("6lo.udp-send-at-the-compressed-size-limit");
                }
            }
            let key = c.tape.draw(1 << 30);
            let payload = payload_bytes(key, n);
            let oversize = match known {
                Some(hl) => hl + n > FRAG_BUF,
                None => 40 + 8 + n > FRAG_BUF,
            };
            let hopeless = 2 + 4 + n > FRAG_BUF;
            let so = c.s[i].node.sockets.get_mut::<udp::Socket>(h);
            let ep = IpEndpoint::new(v6(&dst), dport);
            let r = guard("udp::send_slice", || so.send_slice(&payload, ep))?;
            if r.is_ok() {
                let (s4, d4, s8, d8) = (sport & 0xfff0 == 0xf0b0, dport & 0xfff0 == 0xf0b0, sport & 0xff00 == 0xf000, dport & 0xff00 == 0xf000);
                let class = if s4 && d4 {
                    "6lo.ports.11-both-4bit"
                } else if s8 && d8 {
                    "6lo.ports.both-8bit"
                } else if s8 {
                    "6lo.ports.10-src-8bit"
                } else if d8 {
                    "6lo.ports.01-dst-8bit"
                } else {
                    "6lo.ports.00-inline"
                };
                c.stats.inc(class);
                if n > 40 {
                    c.s[i].sends_big = true;
                    c.big_sends += 1;
                }
                let t = c.now;
                c.log(|| format!("{} app: udp send {} > {}:{} len {} hop {}{}", if i == 0 { 'A' } else { 'B' }, sport, show6(&dst), dport, n, hop, if oversize { " OVERSIZE" } else { "" }));
                c.s[i].pend_udp.push(UdpSend { sport, dport, dst, hop, payload, t, oversize, hopeless });
                c.stats.inc("6lo.udp-sends");
            }
        }
        6 | 7 => {
            // echo request
            let dst = dst_addr(c, to);
            let n = size_class(c);
            let key = c.tape.draw(1 << 30);
            let data = payload_bytes(key, n);
            let seq = c.s[i].echos.len() as u16;
            let ident = c.s[i].ident;
            let mut msg = vec![128u8, 0, 0, 0];
            msg.extend_from_slice(&ident.to_be_bytes());
            msg.extend_from_slice(&seq.to_be_bytes());
            msg.extend_from_slice(&data);
            let oversize = 40 + 8 + n > FRAG_BUF;
            let hopeless = 3 + 8 + n > FRAG_BUF;
            let h = c.s[i].icmp;
            let hop = c.s[i].icmp_hop;
            let so = c.s[i].node.sockets.get_mut::<icmp::Socket>(h);
            let r = guard("icmp::send_slice", || so.send_slice(&msg, v6(&dst)))?;
            if r.is_ok() {
                if n > 40 {
                    c.s[i].sends_big = true;
                    c.big_sends += 1;
                }
                let t = c.now;
                c.log(|| format!("{} app: echo request seq {} > {} len {}", if i == 0 { 'A' } else { 'B' }, seq, show6(&dst), n));
                c.s[i].echos.push(EchoSend { ident, seq, dst, data, hop, t, oversize, hopeless, on_wire: false, answered: false });
                c.stats.inc("6lo.echo-sends");
            }
        }
        8 => {
            // join a multicast group (MLD report with a hop-by-hop header on the wire)
            if c.s[i].groups.len() < 2 {
                let g: [u8; 16] = *c.tape.pick(&[
                    [0xff, 0x02, 0, 0, 0, 0, 0, 0, 0, 0, 0, 0, 0, 0, 0, 0xfb],
                    [0xff, 0x05, 0, 0, 0, 0, 0, 0, 0, 0, 0, 0, 0, 1, 0, 3],
                    [0xff, 0x0e, 0, 0, 0, 0, 0, 0, 0, 0, 0, 0x12, 0x34, 0x56, 0x78, 0x9a],
                    [0xff, 0x12, 0x34, 0x56, 0x78, 0x9a, 0xbc, 0xde, 0xf0, 1, 2, 3, 4, 5, 6, 7],
                    // the boundaries between the four IPHC multicast forms (8, 32, 48 and 128 bits inline)
                    [0xff, 0x05, 0, 0, 0, 0, 0, 0, 0, 0, 0, 0, 0, 0, 0, 0xfb],
                    [0xff, 0x0e, 0, 0, 0, 0, 0, 0, 0, 0, 0, 0, 0, 0, 0, 1],
                    [0xff, 0x02, 0, 0, 0, 0, 0, 0, 0, 0, 0, 0, 0, 0x80, 0, 1],
                    [0xff, 0x02, 0, 0, 0, 0, 0, 0, 0, 0, 0, 0, 0x80, 0, 0, 1],
                    [0xff, 0x3e, 0, 0, 0, 0, 0, 0, 0, 0, 0, 0, 0x43, 0x21, 0x12, 0x34],
                    [0xff, 0x02, 0, 0, 0, 0, 0, 0, 0, 0, 0, 0x01, 0, 0, 0, 1],
                    [0xff, 0x02, 0, 0, 0, 0, 0, 0, 0, 0, 0x01, 0, 0, 0, 0, 1],
                    [0xff, 0x02, 0, 0, 0, 0, 0, 0, 0, 0, 0, 0, 0, 0, 0x01, 0xfb],
                ]);
                let g = if !c.s[i].groups.is_empty() && c.tape.draw(2) == 0 { c.s[i].groups[0] } else { g };
                if !c.s[i].groups.contains(&g) {
                    let now = c.now;
                    let n = &mut c.s[i].node;
                    let (iface, dev) = (&mut n.iface, &mut n.dev);
                    let _ = dev;
                    let r = guard("join_multicast_group", || iface.join_multicast_group(Ipv6Address::from(g)))?;
                    let _ = now;
                    if r.is_ok() {
                        c.s[i].groups.push(g);
                        c.stats.inc("6lo.groups-joined");
                    }
                } else {
                    // already a member: the application leaves and joins again right away (before the interface is
                    // polled) - it stays a member throughout
                    let iface = &mut c.s[i].node.iface;
                    guard("leave+join_multicast_group", || {
                        let _ = iface.leave_multicast_group(Ipv6Address::from(g));
                        let _ = iface.join_multicast_group(Ipv6Address::from(g));
                    })?;
                    c.stats.inc("6lo.group-left-and-rejoined");
                }
            }
        }
        _ => {
            // TCP: write some stream bytes
            if c.tcp_on {
                let h = c.s[i].tcp;
                let key = c.s[i].tcp_key;
                let off = c.s[i].tcp_written;
                let want = c.tape.range(1, 1500) as usize;
                let so = c.s[i].node.sockets.get_mut::<tcp::Socket>(h);
                let n = guard("tcp::send", || {
                    if !so.can_send() {
                        return 0;
                    }
                    so.send(|b| {
                        let n = b.len().min(want);
                        for (j, x) in b[..n].iter_mut().enumerate() {
                            *x = (mix64(key, (off + j as u64) / 8) >> (((off + j as u64) % 8) * 8)) as u8;
                        }
                        (n, n)
                    })
                    .unwrap_or(0)
                })?;
                c.s[i].tcp_written += n as u64;
                c.stats.add("6lo.tcp-bytes-written", n as u64);
            }
        }
    }
    Ok(())
}

fn next_time(c: &mut C, cap: i64) -> Result<i64, Violation> {
    let mut next = c.now + cap;
    for e in &c.link {
        next = next.min(e.0);
    }
    for i in 0..2 {
        let now = c.now;
        if let Some(t) = c.s[i].node.poll_at(now)? {
            next = next.min(t);
        }
    }
    Ok(next.max(c.now))
}

fn body(c: &mut C, thorough: bool) -> Result<(), Violation> {
    if c.tcp_on {
        let lport = *c.tape.pick(&[80u16, 0xf0b1, 0xf012, 7000]);
        let cport = *c.tape.pick(&[49152u16, 0xf0b2, 0xf034, 50000]);
        let k = c.tape.draw(c.s[1].addrs.len() as u64) as usize;
        let dst = c.s[1].addrs[k];
        c.tcp_dst = dst;
        c.tcp_port = lport;
        let h1 = c.s[1].tcp;
        let so = c.s[1].node.sockets.get_mut::<tcp::Socket>(h1);
        guard("tcp::listen", || so.listen(lport).unwrap())?;
        let h0 = c.s[0].tcp;
        let n = &mut c.s[0].node;
        let so = n.sockets.get_mut::<tcp::Socket>(h0);
        let cx = n.iface.context();
        guard("tcp::connect", || so.connect(cx, (v6(&dst), lport), cport).unwrap())?;
    }
    let ops = c.tape.range(3, if thorough { 120 } else { 40 });
    for _ in 0..ops {
        // back-to-back sends: several operations before the next poll
        let burst = if c.tape.draw(4) == 0 { c.tape.range(2, 5) } else { 1 };
        for _ in 0..burst {
            app_op(c)?;
        }
        let steps = c.tape.range(1, 6);
        for _ in 0..steps {
            let first = c.tape.draw(2) as usize;
            poll_side(c, first)?;
            poll_side(c, 1 - first)?;
            let cap = *c.tape.pick(&[1_000i64, 3_000, 20_000, 300_000, 1_500_000]);
            c.now = next_time(c, cap)?;
        }
    }
    // ---- settle: faults stop, everything in flight gets through
    c.faults_on = false;
    let mut idle = 0;
    for _ in 0..4000 {
        poll_side(c, 0)?;
        poll_side(c, 1)?;
        let busy = !c.link.is_empty() || c.s.iter().any(|s| s.reasm.is_some());
        let next = next_time(c, 3_000_000)?;
        // let TCP finish its stream (retransmission timers) and neighbour discovery retry
        let tcp_pending = c.tcp_on && (0..2).any(|i| c.s[i].tcp_read < c.s[1 - i].tcp_written);
        let resolvable = c.s.iter().all(|s| matches!(s.ll, Addr154::Ext(_)));
        let unsent = c.mode == 0 && c.s.iter().any(|s| s.pend_udp.iter().any(|p| !p.oversize && resolvable) || s.echos.iter().any(|e| !e.on_wire && !e.oversize && resolvable));
        if !busy && !tcp_pending && !unsent {
            idle += 1;
            if idle > 3 {
                break;
            }
        } else {
            idle = 0;
        }
        if c.now > 600_000_000 {
            break;
        }
        c.now = next;
    }
    // ---- epilogue: long after the faults (more than the 60 s reassembly timeout and neighbour lifetime), on
    // the loss-free link, fresh fragmented datagrams must get through whatever the lossy phase left behind in
    // the reassembly buffers
    let resolvable_now = c.s.iter().all(|s| matches!(s.ll, Addr154::Ext(_)));
    if c.now <= 600_000_000 && c.tape.draw(3) != 0 {
        c.now += 62_000_000;
        poll_side(c, 0)?;
        poll_side(c, 1)?;
        let marks = [c.s[0].wire.len(), c.s[1].wire.len()];
        // (without a TCP connection or a backlog of earlier datagrams whose fragments could claim the single reassembly
        // slot in between, the fragments of these two datagrams may as well arrive back to front)
        let backlog = c.s.iter().any(|s| s.pend_udp.iter().any(|p| !p.oversize) || s.echos.iter().any(|e| !e.on_wire && !e.oversize) || s.reasm.is_some());
        if !c.tcp_on && !backlog && c.link.is_empty() && c.tape.draw(2) == 0 {
            c.reverse_arrival = true;
            c.stats.inc("6lo.epilogue-fragments-arrive-in-reverse-order");
        }
        for i in 0..2 {
            let to = 1 - i;
            let k = c.tape.draw(3) as usize;
            let (h, sport, hop) = c.s[i].udp[k];
            let dport = c.s[to].udp[c.tape.draw(3) as usize].1;
            let dst = if resolvable_now { c.s[to].addrs[0] } else { [0xff, 0x02, 0, 0, 0, 0, 0, 0, 0, 0, 0, 0, 0, 0, 0, 1] };
            let n = c.tape.range(150, 900) as usize;
            let payload = payload_bytes(c.tape.draw(1 << 30), n);
            let so = c.s[i].node.sockets.get_mut::<udp::Socket>(h);
            let ep = IpEndpoint::new(v6(&dst), dport);
            if guard("udp::send_slice", || so.send_slice(&payload, ep))?.is_ok() {
                let t = c.now;
                c.s[i].pend_udp.push(UdpSend { sport, dport, dst, hop, payload, t, oversize: false, hopeless: false });
                c.stats.inc("6lo.epilogue-sends");
            }
        }
        for _ in 0..400 {
            poll_side(c, 0)?;
            poll_side(c, 1)?;
            let busy = !c.link.is_empty() || c.s.iter().any(|s| s.reasm.is_some() || !s.pend_udp.iter().all(|p| p.oversize || p.t < c.now - 30_000_000));
            if !busy {
                break;
            }
            c.now = next_time(c, 1_000_000)?;
        }
        c.reverse_arrival = false;
        if (c.props.has("C20") || c.props.has("C09")) {
            for i in 0..2 {
                let ports: Vec<u16> = c.s[1 - i].udp.iter().map(|u| u.1).collect();
                for d in &c.s[i].wire[marks[i]..] {
                    let Some((ip, u)) = d.pkt.udp() else { continue };
                    if !ports.contains(&u.dport) || d.ip6.len() > FRAG_BUF {
                        continue;
                    }
                    if d.app_deliveries == 0 {
                        return Err(v(
                            "C20.lossless/udp-datagram-not-delivered-long-after-faults-stopped",
                            "lossless",
                            format!("62 s after the last fault, on a loss-free link, the UDP datagram node {} transmitted at t={} us ({} > {} ports {} > {} len {}, {} frame(s)) was never delivered to the peer's socket", c.s[i].node.name, d.t, ip.src, ip.dst, u.sport, u.dport, u.payload.len(), d.frame_deliveries.len()),
                        ));
                    }
                }
            }
        }
    }
    c.stats.inc(match c.mode {
        0 => "6lo.mode.reliable",
        1 => "6lo.mode.reorder-dup",
        _ => "6lo.mode.reorder-dup-drop",
    });
    if !(c.props.has("C20") || c.props.has("C09")) {
        return Ok(());
    }
    // ---- final verdicts
    // unicast needs neighbour discovery, which smoltcp supports for extended addresses only
    let resolvable = c.s.iter().all(|s| matches!(s.ll, Addr154::Ext(_)));
    for i in 0..2 {
        let name = c.s[i].node.name;
        // nothing may come of an oversize send
        // (checked implicitly: an oversize send never matches a wire datagram)
        if c.mode == 0 {
            if let Some(p) = c.s[i].pend_udp.iter().find(|p| !p.oversize && resolvable) {
                return Err(v(
                    "C20.lossless/udp-send-never-reached-the-wire",
                    "lossless",
                    format!("on a loss-free link node {} never transmitted the UDP datagram its application sent at t={} us: port {} > {}:{} hop {} len {}", name, p.t, p.sport, show6(&p.dst), p.dport, p.hop, p.payload.len()),
                ));
            }
            if let Some(e) = c.s[i].echos.iter().find(|e| !e.on_wire && !e.oversize && resolvable) {
                return Err(v("C20.lossless/echo-request-never-reached-the-wire", "lossless", format!("on a loss-free link node {} never transmitted the echo request seq {} to {} with {} data octets sent at t={} us", name, e.seq, show6(&e.dst), e.data.len(), e.t)));
            }
        }
        if c.mode != 2 {
            // no frame was lost: every UDP datagram to a bound port arrives (reassembly tracks the
            // small reorderings this link produces only when no other datagram interleaves; with
            // reordering enabled only unfragmented datagrams are required)
            let ports: Vec<u16> = c.s[1 - i].udp.iter().map(|u| u.1).collect();
            for d in &c.s[i].wire {
                let Some((ip, u)) = d.pkt.udp() else { continue };
                if !ports.contains(&u.dport) {
                    continue;
                }
                if c.mode == 1 && d.fragmented {
                    continue;
                }
                if d.ip6.len() > FRAG_BUF {
                    // larger than the reassembly buffer: "otherwise nothing is delivered"
                    continue;
                }
                if d.app_deliveries == 0 {
                    return Err(v(
                        "C20.lossless/udp-datagram-not-delivered",
                        "lossless",
                        format!("no frame was lost, yet the UDP datagram node {} transmitted at t={} us ({} > {} ports {} > {} len {}, {} frame(s)) was never delivered to the peer's socket", name, d.t, ip.src, ip.dst, u.sport, u.dport, u.payload.len(), d.frame_deliveries.len()),
                    ));
                }
            }
            // echo requests are answered unless the peer's own fragmenter may have been busy
            // (a reply that needs the fragmenter is legitimately dropped while the fragmenter is busy)
            // and only when the responder certainly knows the requester's link-layer address: unicast request
            // (the requester's solicitation taught it) between single-address nodes
            let single = c.s.iter().all(|s| s.addrs.len() == 1);
            if c.mode == 0 && resolvable && single {
                let big_sends = c.big_sends;
                let tcp_on = c.tcp_on;
                if let Some(e) = c.s[i].echos.iter().find(|e| e.on_wire && !e.answered && !e.oversize && e.dst[0] != 0xff && (e.data.len() <= 40 || (big_sends == 1 && !tcp_on))) {
                    return Err(v("C20.lossless/echo-not-answered", "lossless", format!("on a loss-free link the echo request seq {} from node {} to {} with {} data octets got no (correct) reply", e.seq, name, show6(&e.dst), e.data.len())));
                }
            }
        }
    }
    if c.tcp_on && c.now <= 600_000_000 {
        for i in 0..2 {
            if c.s[i].tcp_read < c.s[1 - i].tcp_written {
                let st = c.s[i].node.sockets.get::<tcp::Socket>(c.s[i].tcp).state();
                // a connection that never got established (SYN lost repeatedly) or was reset is not this property's concern
                if st == tcp::State::Established {
                    return Err(v("C20.lossless/tcp-stream-incomplete", "lossless", format!("after faults stopped node {} read only {} of the {} stream octets the peer wrote", c.s[i].node.name, c.s[i].tcp_read, c.s[1 - i].tcp_written)));
                }
            }
        }
    }
    // ---- last act (one run in three): the application changes the hardware address while a fragmented datagram
    // is leaving. The fragments still to come keep the address the first one carried (it is the reassembly key);
    // nothing is claimed about delivery afterwards.
    if c.tape.draw(3) == 0 {
        let i = c.tape.draw(2) as usize;
        if let (Addr154::Ext(old), true, true) = (c.s[i].ll.clone(), c.s[i].reasm.is_none(), c.link.is_empty()) {
            let (h, sport, hop) = c.s[i].udp[0];
            let dport = c.s[1 - i].udp[0].1;
            let dst = [0xff, 0x02, 0, 0, 0, 0, 0, 0, 0, 0, 0, 0, 0, 0, 0, 1];
            let n = c.tape.range(300, 900) as usize;
            let payload = payload_bytes(c.tape.draw(1 << 30), n);
            let so = c.s[i].node.sockets.get_mut::<udp::Socket>(h);
            let ep = IpEndpoint::new(v6(&dst), dport);
            if guard("udp::send_slice", || so.send_slice(&payload, ep))?.is_ok() {
                let t = c.now;
                c.s[i].pend_udp.push(UdpSend { sport, dport, dst, hop, payload, t, oversize: false, hopeless: false });
                c.faults_on = false;
                let mut changed = false;
                for round in 0..200 {
                    c.s[i].node.dev.tx_budget = if changed { None } else { Some(1 + c.tape.draw(3) as usize) };
                    let now = c.now;
                    let info = c.s[i].node.poll(now)?;
                    for raw in &info.tx {
                        on_tx(c, i, raw)?;
                    }
                    if !changed && c.s[i].reasm.is_some() {
                        let mut new = old;
                        new[7] ^= 0x5a;
                        new[3] ^= 0x01;
                        let iface = &mut c.s[i].node.iface;
                        guard("Interface::set_hardware_addr", || iface.set_hardware_addr(smoltcp::wire::HardwareAddress::Ieee802154(smoltcp::wire::Ieee802154Address::Extended(new))))?;
                        c.s[i].ll = Addr154::Ext(new);
                        c.s[i].view.hw_addr = new.to_vec();
                        changed = true;
                        c.stats.inc("6lo.hardware-address-changed-mid-datagram");
                    }
                    if c.s[i].reasm.is_none() && (changed || round > 3) {
                        break;
                    }
                    c.now += 1_000;
                }
            }
        }
    }
    Ok(())
}
