//! C03: one real node with the full socket complement on each medium, facing an adversary that
//! interleaves valid frames, structurally mutated frames, arbitrary bytes and replays with
//! arbitrary time advances. Oracles: no unwind, every call returns (watchdog), and afterwards a
//! well-formed probe is still answered.

use crate::codec::*;
use crate::codec6lo::*;
use crate::core::*;
use crate::dhcpdns::*;
use crate::mk::*;
use crate::tap::{self, NodeView};
use crate::tape::{LogHash, Tape};
use smoltcp::iface::SocketHandle;
use smoltcp::socket::{dhcpv4, dns, icmp, raw, tcp, udp};
use smoltcp::wire::{DnsQueryType, IpProtocol, IpVersion};

const V_MAC: [u8; 6] = [2, 0, 0, 0, 0, 1];
const P_MAC: [u8; 6] = [2, 0, 0, 0, 0, 2];
const V_LL8: [u8; 8] = [2, 0, 0, 0, 0, 0, 0, 1];
const P_LL8: [u8; 8] = [2, 0, 0, 0, 0, 0, 0, 2];
const PAN: u16 = 0xbeef;

fn v6(last: u8, ll: bool) -> IpAddr {
    let mut a = [0u8; 16];
    if ll {
        a[0] = 0xfe;
        a[1] = 0x80;
        // derived from the extended address 02:00:..:last  (U/L bit flipped -> 00:00:..)
        a[15] = last;
    } else {
        a[0] = 0xfd;
        a[15] = last;
    }
    IpAddr::V6(a)
}

struct Adv<'a> {
    tape: &'a mut Tape,
    props: Props,
    node: Node,
    view: NodeView,
    medium: Medium,
    now: i64,
    stats: Stats,
    hash: LogHash,
    trace: Vec<String>,
    trace_on: bool,
    events: u64,
    v4: Option<IpAddr>,
    v6a: Option<IpAddr>,
    p4: IpAddr,
    p6: IpAddr,
    seqno: u8,
    // learned from the victim's traffic
    tcp_est: Option<(u16, u16, u32, u32)>, // victim port, our port, victim snd_nxt, our snd_nxt
    dns_q: Vec<(u16, u16, Vec<String>, u16, bool)>, // (src port, txid, name, qtype, v6)
    dhcp_xid: Option<u32>,
    history: Vec<Vec<u8>>,
    h_tcp_conn: SocketHandle,
    ctx6: Ctx6,
    /// the device sometimes has few or no free transmit slots during a call (a third of the runs)
    bp: bool,
    /// the frame just generated is an MLD general query (the application may leave its group before the report is due)
    mld_general_query: bool,
}

fn hexs(b: &[u8]) -> String {
    tap::hex(b)
}

impl<'a> Adv<'a> {
    fn log(&mut self, f: impl FnOnce() -> String) {
        if self.trace_on && self.trace.len() < 3000 {
            let s = f();
            self.trace.push(format!("t={:>12.6}s {}", self.now as f64 / 1e6, s));
        }
    }
    /// L2-wrap an IP datagram for the medium, from the adversary to the victim (or a given L2 dst).
    fn wrap(&mut self, ip: Vec<u8>, l2_bcast: bool) -> Vec<u8> {
        match self.medium {
            Medium::Ip => ip,
            Medium::Ethernet => {
                let dst = if l2_bcast { [0xff; 6] } else { V_MAC };
                let et = if ip.first().map(|b| b >> 4) == Some(4) { ETH_IPV4 } else { ETH_IPV6 };
                enc_eth(dst, P_MAC, et, &ip)
            }
            Medium::Ieee802154 => {
                if ip.len() < 40 || ip[0] >> 4 != 6 {
                    // not IPv6: carry the bytes verbatim behind an IPHC-looking dispatch
                    let f = data_frame(self.next_seq(), PAN, Addr154::Ext(V_LL8), Addr154::Ext(P_LL8), ip);
                    return enc_154(&f);
                }
                let o = IphcOpts { tf: self.tape.draw(4) as u8, sam: self.tape.draw(4) as u8, dam: self.tape.draw(4) as u8, hlim_inline: self.tape.draw(2) == 1, nhc_udp: self.tape.draw(2) == 1, udp_elide_checksum: self.tape.draw(4) == 3 };
                let (src, dst) = (Addr154::Ext(P_LL8), if l2_bcast { Addr154::Short([0xff, 0xff]) } else { Addr154::Ext(V_LL8) });
                let comp = enc_iphc(&ip, &src, &dst, &o);
                let f = data_frame(self.next_seq(), PAN, dst, src, comp);
                enc_154(&f)
            }
        }
    }
    fn next_seq(&mut self) -> u8 {
        self.seqno = self.seqno.wrapping_add(1);
        self.seqno
    }
    fn pair(&mut self, want_v6: bool) -> Option<(IpAddr, IpAddr)> {
        // (victim, adversary)
        if want_v6 || self.v4.is_none() {
            self.v6a.map(|v| (v, self.p6))
        } else {
            self.v4.map(|v| (v, self.p4))
        }
    }

    fn observe(&mut self, info: &PollInfo) -> Result<Vec<Option<Packet>>, Violation> {
        let mut out = vec![];
        for raw in &info.tx {
            self.hash.bytes(raw);
            self.stats.inc("frames.tx");
            let pkt = match self.medium {
                Medium::Ieee802154 => {
                    // 802.15.4: generic decode (C10 on this medium is checked in the 6LoWPAN scenarios)
                    match decode_frame_154(raw, &self.ctx6, &Verify::none()) {
                        Ok((_, p, _)) => p,
                        Err(_) => None,
                    }
                }
                _ => tap::check_frame(self.props, &self.view, raw, &mut self.stats)?,
            };
            if let Some(p) = &pkt {
                let s = p.summary();
                self.log(|| format!("V tx {}", s));
                if let Some((_, i)) = p.icmp6() {
                    if i.typ == 143 {
                        self.stats.inc(if i.rest[2] == 0 && i.rest[3] == 0 { "adv.mld-reports-without-records" } else { "adv.mld-reports" });
                    }
                }
                // learn what a real peer would learn
                if let Some((_, t)) = p.tcp() {
                    if let Some(e) = &mut self.tcp_est {
                        if t.sport == e.0 && t.dport == e.1 {
                            e.2 = t.seq.wrapping_add(t.seg_len());
                        }
                    }
                }
                if let Some((ip, u)) = p.udp() {
                    if u.dport == 53 || u.dport == 5353 {
                        if let Ok(d) = dec_dns(&u.payload) {
                            if let Some(q) = d.questions.first() {
                                self.dns_q.push((u.sport, d.id, q.name.clone(), q.qtype, !ip.src.is_v4()));
                                if self.dns_q.len() > 8 {
                                    self.dns_q.remove(0);
                                }
                            }
                        }
                    }
                    if u.dport == 67 {
                        if let Ok(d) = dec_dhcp(&u.payload) {
                            self.dhcp_xid = Some(d.xid);
                        }
                    }
                }
            }
            if self.history.len() < 64 {
                self.history.push(raw.clone());
            }
            out.push(pkt);
        }
        Ok(out)
    }
    fn deliver(&mut self, frame: Vec<u8>, single: bool) -> Result<Vec<Option<Packet>>, Violation> {
        self.events += 1;
        self.hash.u64(self.now as u64);
        self.hash.bytes(&frame);
        self.node.dev.rx.push_back(frame);
        self.squeeze();
        let info = if single { self.node.poll_ingress_single(self.now) } else { self.node.poll(self.now) };
        self.node.dev.tx_budget = None;
        self.observe(&info?)
    }
    /// device back-pressure for the next call: zero to two free transmit slots
    fn squeeze(&mut self) {
        if self.bp && self.tape.draw(4) == 0 {
            self.node.dev.tx_budget = Some(self.tape.draw(3) as usize);
            self.stats.inc("adv.calls-under-back-pressure");
        }
    }
    fn poll(&mut self) -> Result<Vec<Option<Packet>>, Violation> {
        self.events += 1;
        self.hash.u64(self.now as u64);
        self.squeeze();
        let info = self.node.poll(self.now);
        self.node.dev.tx_budget = None;
        let info = info?;
        // poll_at must be callable in every state too
        let _ = self.node.poll_at(self.now)?;
        self.observe(&info)
    }
}

fn rnd_bytes(t: &mut Tape, n: usize) -> Vec<u8> {
    let mut v = Vec::with_capacity(n);
    let mut w = 0u64;
    for i in 0..n {
        if i % 8 == 0 {
            w = t.draw(u64::MAX);
        }
        v.push((w >> ((i % 8) * 8)) as u8);
    }
    v
}

fn interesting(t: &mut Tape) -> u8 {
    *t.pick(&[0u8, 1, 0xff, 0x7f, 0x80, 2, 4, 8, 0x0f, 0xf0, 0x3f, 0x40, 0xfe])
}

/// An adversarial TCP options area: a list of options whose kinds are the known ones or arbitrary and whose
/// length octets are right, off by a few, zero, one, or larger than what is left.
fn fuzz_tcp_opts(t: &mut Tape) -> Vec<u8> {
    let mut o = vec![];
    let n = 1 + t.draw(5);
    for _ in 0..n {
        let kind = *t.pick(&[2u8, 3, 4, 5, 8, 1, 0, 5, 5, 8, 30, 254, 6, 34]);
        if kind == 1 || kind == 0 {
            o.push(kind);
            continue;
        }
        let right: u8 = match kind {
            2 => 4,
            3 => 3,
            4 => 2,
            5 => 2 + 8 * (1 + t.draw(4) as u8),
            8 => 10,
            _ => 2 + t.draw(12) as u8,
        };
        let len = match t.draw(8) {
            0 => 0,
            1 => 1,
            2 => right.wrapping_sub(1 + t.draw(5) as u8),
            3 => right.wrapping_add(1 + t.draw(7) as u8),
            4 => *t.pick(&[255u8, 40, 41, 128, 3, 6, 14, 22, 30, 38]),
            _ => right,
        };
        o.push(kind);
        o.push(len);
        // body sized by the right length or by the declared one
        let body = if t.draw(2) == 0 { right.saturating_sub(2) } else { len.saturating_sub(2) } as usize;
        for _ in 0..body.min(38) {
            o.push(t.draw(256) as u8);
        }
        if o.len() >= 40 {
            break;
        }
    }
    // sometimes cut in the middle of the last option
    if t.draw(4) == 0 && !o.is_empty() {
        let cut = t.draw(o.len() as u64) as usize;
        o.truncate(cut.max(1));
    }
    o.truncate(40);
    o
}

/// Build one adversarial IP datagram (before L2 wrapping). Returns (ip bytes, l2 broadcast?).
fn gen_ip(a: &mut Adv) -> (Vec<u8>, bool) {
    let want_v6 = a.tape.draw(2) == 1;
    let Some((v, p)) = a.pair(want_v6) else { return (vec![], false) };
    let is6 = !v.is_v4();
    let kind = a.tape.draw(14);
    let hop = *a.tape.pick(&[64u8, 255, 1, 0, 2]);
    match kind {
        0 => {
            // SYN (or other flags) to the listener
            let flags = *a.tape.pick(&[F_SYN, F_SYN | F_ACK, F_ACK, F_RST, F_FIN | F_ACK, F_SYN | F_FIN, 0, 0x3f]);
            let t = Tcp { sport: 1024 + a.tape.draw(60000) as u16, dport: 80, seq: a.tape.draw(u32::MAX as u64) as u32, ack: a.tape.draw(u32::MAX as u64) as u32, flags, win: a.tape.draw(65536) as u16, opts: TcpOpts { mss: Some(a.tape.draw(65536) as u16), wscale: Some(a.tape.draw(20) as u8), sack_perm: true, sack: vec![], ts: if a.tape.draw(2) == 1 { Some((1, 2)) } else { None } }, payload: { let n = a.tape_len(40); rnd_bytes(a.tape, n) }, ..Tcp::default() };
            if a.tape.draw(3) == 2 {
                let o = fuzz_tcp_opts(a.tape);
                a.stats.inc("adv.tcp-fuzzed-options");
                return (enc_ip(&p, &v, P_TCP, hop, &enc_tcp_raw_opts(&p, &v, &t, &o)), false);
            }
            (enc_ip(&p, &v, P_TCP, hop, &enc_tcp(&p, &v, &t)), false)
        }
        1 => {
            // a segment for the established / connecting socket
            let (vp, pp, vnxt, pnxt) = a.tcp_est.unwrap_or((40000, 81, 0, 0));
            let d = a.tape.draw(8);
            let seq = match d {
                0 | 1 | 2 => pnxt,
                3 => pnxt.wrapping_sub(1),
                4 => pnxt.wrapping_add(a.tape.draw(70000) as u32),
                _ => a.tape.draw(u32::MAX as u64) as u32,
            };
            let ack = match a.tape.draw(4) {
                0 | 1 => vnxt,
                2 => vnxt.wrapping_add(1),
                _ => a.tape.draw(u32::MAX as u64) as u32,
            };
            let flags = *a.tape.pick(&[F_ACK, F_ACK | F_PSH, F_ACK | F_FIN, F_RST, F_RST | F_ACK, F_SYN | F_ACK, F_ACK | F_URG, F_SYN]);
            let n = a.tape_len(200);
            let sack = if a.tape.draw(4) == 0 { vec![(a.tape.draw(u32::MAX as u64) as u32, a.tape.draw(u32::MAX as u64) as u32)] } else { vec![] };
            let t = Tcp { sport: pp, dport: vp, seq, ack, flags, win: a.tape.draw(65536) as u16, payload: rnd_bytes(a.tape, n), opts: TcpOpts { sack, mss: if flags & F_SYN != 0 { Some(536) } else { None }, ..TcpOpts::default() }, ..Tcp::default() };
            if flags & F_SYN != 0 && flags & F_ACK != 0 && ack == vnxt {
                if let Some(e) = &mut a.tcp_est {
                    e.3 = seq.wrapping_add(1);
                }
            } else if let Some(e) = &mut a.tcp_est {
                if seq == e.3 {
                    e.3 = e.3.wrapping_add(n as u32);
                }
            }
            if a.tape.draw(4) == 3 {
                let o = fuzz_tcp_opts(a.tape);
                a.stats.inc("adv.tcp-fuzzed-options");
                return (enc_ip(&p, &v, P_TCP, hop, &enc_tcp_raw_opts(&p, &v, &t, &o)), false);
            }
            (enc_ip(&p, &v, P_TCP, hop, &enc_tcp(&p, &v, &t)), false)
        }
        2 => {
            let dport = *a.tape.pick(&[7000u16, 9, 68, 53, 5353, 0]);
            let n = a.tape_len(300);
            let pl = rnd_bytes(a.tape, n);
            (enc_ip(&p, &v, P_UDP, hop, &enc_udp(&p, &v, 4000 + a.tape.draw(10) as u16, dport, &pl)), false)
        }
        3 => {
            // ICMP echo / errors quoting one of the victim's datagrams
            let sub = a.tape.draw(4);
            if sub == 0 {
                let n = a.tape_len(200);
                let body = rnd_bytes(a.tape, n);
                let rest = [0x22, 0x22, 0, 1];
                let m = if is6 { enc_icmp(true, &p, &v, *a.tape.pick(&[128u8, 129]), 0, rest, &body) } else { enc_icmp(false, &p, &v, *a.tape.pick(&[8u8, 0]), 0, rest, &body) };
                (enc_ip(&p, &v, if is6 { P_ICMP6 } else { P_ICMP }, hop, &m), false)
            } else {
                // error: quoted victim packet (UDP from 7000 or TCP from 40000)
                let quoted_l4 = if a.tape.draw(2) == 0 { enc_udp(&v, &p, 7000, 9, &[1, 2, 3, 4]) } else { enc_tcp(&v, &p, &Tcp { sport: 40000, dport: 81, flags: F_SYN, ..Tcp::default() }) };
                let mut quoted = enc_ip(&v, &p, if a.tape.draw(2) == 0 { P_UDP } else { P_TCP }, 64, &quoted_l4);
                let cut = a.tape.draw(quoted.len() as u64 + 1) as usize;
                if a.tape.draw(3) == 0 {
                    quoted.truncate(cut);
                }
                let (typ, code) = if is6 { (*a.tape.pick(&[1u8, 2, 3, 4]), a.tape.draw(8) as u8) } else { (*a.tape.pick(&[3u8, 11, 12, 5, 4]), a.tape.draw(16) as u8) };
                let m = enc_icmp(is6, &p, &v, typ, code, [0, 0, 0, 0], &quoted);
                (enc_ip(&p, &v, if is6 { P_ICMP6 } else { P_ICMP }, hop, &m), false)
            }
        }
        4 => {
            // NDISC
            let Some((v6v, p6)) = a.pair(true) else { return (vec![], false) };
            let typ = *a.tape.pick(&[135u8, 136, 134, 133, 137]);
            let mut body: Vec<u8> = vec![];
            let tgt = if a.tape.draw(3) == 0 { p6 } else { v6v };
            match typ {
                135 => body.extend_from_slice(tgt.bytes()),
                136 => body.extend_from_slice(tgt.bytes()),
                134 => body.extend_from_slice(&[0, 0, 0, 0, 0, 0, 0, 0]),
                137 => {
                    body.extend_from_slice(tgt.bytes());
                    body.extend_from_slice(p6.bytes());
                }
                _ => {}
            }
            // options
            for _ in 0..a.tape.draw(4) {
                let ot = *a.tape.pick(&[1u8, 2, 3, 5, 4, 0, 24, 31]);
                match ot {
                    1 | 2 => {
                        if a.medium == Medium::Ieee802154 {
                            body.extend_from_slice(&[ot, 2]);
                            body.extend_from_slice(&P_LL8);
                            body.extend_from_slice(&[0; 6]);
                        } else {
                            body.extend_from_slice(&[ot, 1]);
                            body.extend_from_slice(&P_MAC);
                        }
                    }
                    3 => {
                        let plen = *a.tape.pick(&[64u8, 0, 128, 129, 63, 65, 255]);
                        body.extend_from_slice(&[3, 4, plen, 0xc0]);
                        body.extend_from_slice(&(a.tape.draw(u32::MAX as u64) as u32).to_be_bytes());
                        body.extend_from_slice(&(a.tape.draw(u32::MAX as u64) as u32).to_be_bytes());
                        body.extend_from_slice(&[0; 4]);
                        let mut pre = [0u8; 16];
                        pre[0] = *a.tape.pick(&[0x20u8, 0xfd, 0xfe, 0xff, 0]);
                        pre[1] = a.tape.draw(256) as u8;
                        body.extend_from_slice(&pre);
                    }
                    5 => {
                        body.extend_from_slice(&[5, 1, 0, 0]);
                        body.extend_from_slice(&(a.tape.draw(70000) as u32).to_be_bytes());
                    }
                    _ => {
                        let l = a.tape.draw(4) as u8;
                        body.push(ot);
                        body.push(l);
                        let n = (l as usize * 8).saturating_sub(2);
                        body.extend_from_slice(&rnd_bytes(a.tape, n));
                    }
                }
            }
            let flags_rest = match typ {
                136 => [*a.tape.pick(&[0xe0u8, 0x60, 0x20, 0]), 0, 0, 0],
                134 => [*a.tape.pick(&[64u8, 0, 255]), *a.tape.pick(&[0u8, 0xc0]), (a.tape.draw(65536) >> 8) as u8, a.tape.draw(256) as u8],
                _ => [0, 0, 0, 0],
            };
            let dst = match a.tape.draw(3) {
                0 => v6v,
                1 => IpAddr::V6([0xff, 2, 0, 0, 0, 0, 0, 0, 0, 0, 0, 0, 0, 0, 0, 1]),
                _ => v6v.solicited_node(),
            };
            let src = if a.tape.draw(6) == 0 { IpAddr::V6([0; 16]) } else { p6 };
            let m = enc_icmp(true, &src, &dst, typ, 0, flags_rest, &body);
            (enc_ip(&src, &dst, P_ICMP6, *a.tape.pick(&[255u8, 255, 255, 64, 1]), &m), dst.is_multicast())
        }
        5 => {
            // IGMP / MLD queries
            if is6 {
                // queried address: none (general query), a group, the victim's solicited-node group, or - not a
                // multicast address at all - the victim's own unicast address
                let mut body = vec![0u8; 16];
                match a.tape.draw(5) {
                    0 => a.mld_general_query = true,
                    1 => {
                        body[0] = 0xff;
                        body[1] = 2;
                        body[15] = 0x42;
                    }
                    2 => body.copy_from_slice(&v.solicited_node().v6()),
                    3 => body.copy_from_slice(&v.v6()),
                    _ => {
                        body[0] = 0xff;
                        body[1] = a.tape.draw(16) as u8;
                        body[15] = a.tape.draw(256) as u8;
                    }
                }
                let queried = body[..16].to_vec();
                body.extend_from_slice(&[0, 0, 0, a.tape.draw(3) as u8]);
                // destination: all-nodes, the queried address itself, or the victim's unicast address
                let dst = match a.tape.draw(4) {
                    0 | 1 => IpAddr::V6([0xff, 2, 0, 0, 0, 0, 0, 0, 0, 0, 0, 0, 0, 0, 0, 1]),
                    2 if queried != [0u8; 16] => {
                        let mut q = [0u8; 16];
                        q.copy_from_slice(&queried);
                        IpAddr::V6(q)
                    }
                    _ => v,
                };
                // (a querier's source address is link-local, whatever addresses the link otherwise uses; the response
                // delay is often short so that the report falls due within the run)
                let p = if a.tape.draw(4) != 0 { IpAddr::V6([0xfe, 0x80, 0, 0, 0, 0, 0, 0, 0, 0, 0, 0, 0, 0, 0, 2]) } else { p };
                let code: [u8; 2] = if a.tape.draw(2) == 0 { [0, a.tape.draw(256) as u8] } else { [(a.tape.draw(65536) >> 8) as u8, a.tape.draw(256) as u8] };
                let m = enc_icmp(true, &p, &dst, 130, 0, [code[0], code[1], 0, 0], &body);
                // hop-by-hop router alert in front
                let mut pl = vec![P_ICMP6, 0, 5, 2, 0, 0, 1, 0];
                pl.extend_from_slice(&m);
                (enc_ip(&p, &dst, P_HBH, 1, &pl), dst.is_multicast())
            } else {
                let mut dst = IpAddr::V4([224, 0, 0, 1]);
                let mut m = vec![0x11, a.tape.draw(256) as u8, 0, 0, 0, 0, 0, 0];
                if a.tape.draw(2) == 0 {
                    m[4..8].copy_from_slice(&[224, 0, 0, 66]);
                    // a group-specific query is addressed to the group itself
                    if a.tape.draw(2) == 0 {
                        dst = IpAddr::V4([224, 0, 0, 66]);
                    }
                }
                let c = inet_csum(&m, 0);
                m[2] = (c >> 8) as u8;
                m[3] = c as u8;
                (enc_ip(&p, &dst, P_IGMP, 1, &m), true)
            }
        }
        6 => {
            // DHCP reply
            let Some(v4) = a.v4 else { return (vec![], false) };
            let mt = *a.tape.pick(&[DHCP_OFFER, DHCP_ACK, DHCP_NAK, DHCP_ACK, 0, 9]);
            let mut d = Dhcp { op: 2, xid: a.dhcp_xid.unwrap_or(0x1234), chaddr: V_MAC, yiaddr: [10, 0, 0, 99], siaddr: [10, 0, 0, 2], ..Dhcp::default() };
            if a.tape.draw(6) == 0 {
                d.xid ^= 1;
            }
            d.options.push((53, vec![mt]));
            for _ in 0..a.tape.draw(8) {
                let code = *a.tape.pick(&[1u8, 3, 6, 51, 54, 58, 59, 12, 15, 255, 0, 82, 43]);
                let data = match code {
                    1 => vec![255, 255, *a.tape.pick(&[255u8, 0, 254, 1]), 0],
                    3 | 54 => vec![10, 0, 0, 2],
                    6 => { let n = *a.tape.pick(&[4usize, 8, 12, 16, 3, 0]); rnd_bytes(a.tape, n) }
                    51 | 58 | 59 => (*a.tape.pick(&[0u32, 1, 60, 3600, u32::MAX, 120])).to_be_bytes().to_vec(),
                    _ => {
                        let n = a.tape_len(40);
                        rnd_bytes(a.tape, n)
                    }
                };
                d.options.push((code, data));
            }
            let b = enc_dhcp(&d);
            let dst = if a.tape.draw(2) == 0 { IpAddr::V4([255, 255, 255, 255]) } else { v4 };
            let src = IpAddr::V4([10, 0, 0, 2]);
            (enc_ip(&src, &dst, P_UDP, 64, &enc_udp(&src, &dst, 67, 68, &b)), dst.is_limited_broadcast())
        }
        7 => {
            // DNS response for one of the victim's queries
            let q = if a.dns_q.is_empty() { None } else { Some(a.dns_q[a.tape.draw(a.dns_q.len() as u64) as usize].clone()) };
            let (port, txid, name, qtype, q6) = q.unwrap_or((49152, 1, vec!["x".into(), "example".into()], T_A, is6));
            let Some((v, p)) = a.pair(q6) else { return (vec![], false) };
            let mut d = Dns { id: txid, flags: *a.tape.pick(&[0x8180u16, 0x8183, 0x8580, 0x0100, 0x8380]), questions: vec![DnsQ { name: name.clone(), qtype, qclass: 1 }], answers: vec![] };
            for _ in 0..a.tape.draw(5) {
                let rt = *a.tape.pick(&[T_A, T_AAAA, T_CNAME, 16, 2]);
                let rdata = match rt {
                    T_A => { let n = *a.tape.pick(&[4usize, 4, 3, 5, 0]); rnd_bytes(a.tape, n) }
                    T_AAAA => { let n = *a.tape.pick(&[16usize, 16, 15, 4]); rnd_bytes(a.tape, n) }
                    _ => {
                        let n = a.tape_len(30);
                        rnd_bytes(a.tape, n)
                    }
                };
                let target = if rt == T_CNAME { Some(vec!["alias".to_string(), "example".to_string()]) } else { None };
                d.answers.push(DnsRr { name: if a.tape.draw(3) == 0 { vec!["other".into()] } else { name.clone() }, rtype: rt, class: 1, ttl: 60, rdata, target });
            }
            let mut b = enc_dns(&d, a.tape.draw(2) == 0);
            // compression-pointer games
            if a.tape.draw(3) == 0 && b.len() > 14 {
                let at = 12 + a.tape.draw((b.len() - 13) as u64) as usize;
                b[at] = 0xc0 | (a.tape.draw(64) as u8);
                b[at + 1] = a.tape.draw(256) as u8;
            }
            (enc_ip(&p, &v, P_UDP, 64, &enc_udp(&p, &v, *a.tape.pick(&[53u16, 53, 5353, 54]), port, &b)), false)
        }
        8 => {
            // IPv4 fragments / IPv6 extension headers
            if !is6 {
                let IpAddr::V4(s) = p else { unreachable!() };
                let IpAddr::V4(d) = v else { unreachable!() };
                let n = a.tape_len(120) / 8 * 8;
                let pl = rnd_bytes(a.tape, n);
                let o = V4Opts { ident: a.tape.draw(4) as u16, df: a.tape.draw(8) == 0, mf: a.tape.draw(2) == 0, frag_off: *a.tape.pick(&[0usize, 8, 64, 1480, 65528, 65000, 2048]), tos: 0 };
                (enc_ipv4(s, d, *a.tape.pick(&[P_UDP, P_ICMP, P_TCP, 253]), hop, &o, &pl), false)
            } else {
                // chain of extension headers
                let inner = enc_icmp(true, &p, &v, 128, 0, [0x22, 0x22, 0, 7], &[1, 2, 3, 4]);
                let mut chain: Vec<(u8, Vec<u8>)> = vec![];
                for _ in 0..a.tape.draw(4) {
                    let kind = *a.tape.pick(&[P_HBH, P_V6DEST, P_V6ROUTE, P_V6FRAG, 59, 135]);
                    let body: Vec<u8> = match kind {
                        P_V6FRAG => vec![0, 0, a.tape.draw(256) as u8, a.tape.draw(256) as u8, 0, 0, 0, 1],
                        P_V6ROUTE => {
                            let mut b = vec![0, 2, *a.tape.pick(&[0u8, 2, 3, 4, 255]), a.tape.draw(4) as u8, 0, 0, 0, 0];
                            b.extend_from_slice(&[0; 16]);
                            b
                        }
                        _ => {
                            // options area of 6 or 14 bytes
                            let mut o = vec![];
                            let ot = *a.tape.pick(&[1u8, 0x05, 0x3e, 0x7e, 0xbe, 0xfe, 0x63, 0xc2]);
                            o.push(ot);
                            let l = *a.tape.pick(&[4u8, 0, 12, 200, 5]);
                            o.push(l);
                            while o.len() < 6 {
                                o.push(0);
                            }
                            let mut b = vec![0, 0];
                            b.extend_from_slice(&o[..6]);
                            b
                        }
                    };
                    chain.push((kind, body));
                }
                let mut pl = vec![];
                let mut first_nh = P_ICMP6;
                for (i, (k, body)) in chain.iter().enumerate() {
                    let next = chain.get(i + 1).map(|x| x.0).unwrap_or(P_ICMP6);
                    let mut b = body.clone();
                    b[0] = next;
                    if *k != P_V6FRAG {
                        b[1] = (b.len() / 8).saturating_sub(1) as u8;
                    }
                    if i == 0 {
                        first_nh = *k;
                    }
                    pl.extend_from_slice(&b);
                }
                pl.extend_from_slice(&inner);
                (enc_ip(&p, &v, first_nh, hop, &pl), false)
            }
        }
        9 => {
            // unknown protocol / raw socket protocol
            let n = a.tape_len(60);
            let pl = rnd_bytes(a.tape, n);
            (enc_ip(&p, &v, *a.tape.pick(&[253u8, 254, 41, 4, 50, 51, 47]), hop, &pl), false)
        }
        10 => {
            // wrong / special addresses
            let (s, d) = if is6 {
                let opts = [p, IpAddr::V6([0; 16]), IpAddr::V6([0, 0, 0, 0, 0, 0, 0, 0, 0, 0, 0, 0, 0, 0, 0, 1]), IpAddr::V6([0xff, 2, 0, 0, 0, 0, 0, 0, 0, 0, 0, 0, 0, 0, 0, 1]), v];
                (*a.tape.pick(&opts), *a.tape.pick(&opts))
            } else {
                let opts = [p, IpAddr::V4([0, 0, 0, 0]), IpAddr::V4([127, 0, 0, 1]), IpAddr::V4([255, 255, 255, 255]), IpAddr::V4([10, 0, 0, 255]), IpAddr::V4([224, 0, 0, 1]), v];
                (*a.tape.pick(&opts), *a.tape.pick(&opts))
            };
            let l4 = match a.tape.draw(3) {
                0 => (P_UDP, enc_udp(&s, &d, 4000, 7000, b"hello")),
                1 => (P_TCP, enc_tcp(&s, &d, &Tcp { sport: 5000, dport: 80, flags: F_SYN, win: 1000, seq: 77, ..Tcp::default() })),
                _ => (if is6 { P_ICMP6 } else { P_ICMP }, enc_icmp(is6, &s, &d, if is6 { 128 } else { 8 }, 0, [0x22, 0x22, 0, 1], b"abcd")),
            };
            let bc = d.is_multicast() || d.is_limited_broadcast();
            (enc_ip(&s, &d, l4.0, hop, &l4.1), bc)
        }
        _ => {
            let n = a.tape_len(a.node.dev.mtu.min(400));
            (rnd_bytes(a.tape, n), false)
        }
    }
}

impl<'a> Adv<'a> {
    fn tape_len(&mut self, max: usize) -> usize {
        self.tape.size(0, max as u64) as usize
    }
}

fn gen_arp(a: &mut Adv) -> Vec<u8> {
    let v4 = a.v4.map(|x| x.v4()).unwrap_or([10, 0, 0, 1]);
    let op = *a.tape.pick(&[1u16, 2, 2, 3, 0]);
    let spa = *a.tape.pick(&[[10, 0, 0, 2], [10, 0, 0, 3], [0, 0, 0, 0], [255, 255, 255, 255], [224, 0, 0, 1], [192, 0, 2, 1], v4]);
    let sha = *a.tape.pick(&[P_MAC, [0xff; 6], [1, 0, 0x5e, 0, 0, 1], [0; 6], [2, 0, 0, 0, 0, 9]]);
    let tpa = *a.tape.pick(&[v4, [10, 0, 0, 7], v4]);
    let arp = Arp { op, sha, spa, tha: *a.tape.pick(&[V_MAC, [0; 6], [0xff; 6]]), tpa };
    let mut b = enc_arp(&arp);
    if a.tape.draw(4) == 0 {
        b[4] = interesting(a.tape);
    }
    if a.tape.draw(4) == 0 {
        b[5] = interesting(a.tape);
    }
    enc_eth(*a.tape.pick(&[V_MAC, [0xff; 6]]), sha, ETH_ARP, &b)
}

fn gen_6lowpan_special(a: &mut Adv) -> Vec<u8> {
    // hand-built dispatch-level frames: fragments and IPHC/NHC with arbitrary mode bits
    let kind = a.tape.draw(4);
    let mut pl: Vec<u8>;
    match kind {
        0 | 1 => {
            let first = kind == 0;
            let size = *a.tape.pick(&[40u16, 39, 0, 41, 100, 1280, 1500, 2047, 1501]);
            let h = FragHdr { first, size, tag: a.tape.draw(3) as u16, offset: *a.tape.pick(&[0usize, 8, 40, 96, 2040, 1496]) };
            let inner = if first {
                // a compressed datagram follows
                let Some((v, p)) = a.pair(true) else { return vec![] };
                let n = a.tape_len(60);
                let data = rnd_bytes(a.tape, n);
                let udp = enc_udp(&p, &v, 0xf0b1, 0xf0b2, &data);
                let ip = enc_ip(&p, &v, P_UDP, 64, &udp);
                let o = IphcOpts { tf: 3, sam: a.tape.draw(4) as u8, dam: a.tape.draw(4) as u8, hlim_inline: false, nhc_udp: a.tape.draw(2) == 0, udp_elide_checksum: a.tape.draw(3) == 0 };
                enc_iphc(&ip, &Addr154::Ext(P_LL8), &Addr154::Ext(V_LL8), &o)
            } else {
                let n = a.tape_len(90);
                rnd_bytes(a.tape, n)
            };
            pl = enc_frag(&h, &inner);
        }
        2 => {
            // IPHC base header with arbitrary mode bits, then NHC chain
            pl = vec![0x60 | a.tape.draw(32) as u8, a.tape.draw(256) as u8];
            let n = a.tape_len(48);
            pl.extend_from_slice(&rnd_bytes(a.tape, n));
            // append an NHC header with interesting lengths
            match a.tape.draw(3) {
                0 => {
                    pl.push(0xe0 | a.tape.draw(16) as u8);
                    pl.push(interesting(a.tape));
                    pl.push(interesting(a.tape));
                }
                1 => {
                    pl.push(0xf0 | a.tape.draw(8) as u8);
                    let n = a.tape.draw(7) as usize;
                    pl.extend_from_slice(&rnd_bytes(a.tape, n));
                }
                _ => {}
            }
        }
        _ => {
            // well-formed IPHC with NH compressed and an extension header NHC
            let Some((v, p)) = a.pair(true) else { return vec![] };
            let _ = (v, p);
            let mut b = vec![0x7e, 0x33]; // TF elided, NH compressed, HLIM 64; SAM/DAM elided
            let eid = a.tape.draw(8) as u8;
            let nh = a.tape.draw(2) as u8;
            b.push(0xe0 | (eid << 1) | nh);
            if nh == 0 {
                b.push(*a.tape.pick(&[P_UDP, P_ICMP6, P_TCP, 59, 0]));
            }
            let l = *a.tape.pick(&[0u8, 1, 6, 14, 255, 100, 2]);
            b.push(l);
            let n = a.tape_len(40);
            b.extend_from_slice(&rnd_bytes(a.tape, n));
            if nh == 1 {
                b.push(0xf0 | a.tape.draw(8) as u8);
                let n = a.tape.draw(8) as usize;
                b.extend_from_slice(&rnd_bytes(a.tape, n));
            }
            pl = b;
        }
    }
    if pl.len() > 110 {
        pl.truncate(110);
    }
    let src = match a.tape.draw(4) {
        0 => Addr154::Short([0, 2]),
        1 => Addr154::Absent,
        _ => Addr154::Ext(P_LL8),
    };
    let dst = match a.tape.draw(4) {
        0 => Addr154::Short([0xff, 0xff]),
        1 => Addr154::Short([0, 1]),
        _ => Addr154::Ext(V_LL8),
    };
    let mut f = data_frame(a.next_seq(), if a.tape.draw(8) == 0 { 0x1234 } else { PAN }, dst, src, pl);
    if a.tape.draw(8) == 0 {
        f.frame_type = a.tape.draw(8) as u8;
    }
    if a.tape.draw(8) == 0 {
        f.pan_comp = false;
        f.src_pan = Some(PAN);
    }
    if a.tape.draw(16) == 0 {
        f.version = a.tape.draw(4) as u8;
    }
    let mut b = enc_154(&f);
    // the reserved addressing mode 0b01 for the destination (FCF bits 10-11) or the source (bits 14-15)
    if a.tape.draw(12) == 11 && b.len() > 2 {
        if a.tape.draw(2) == 0 {
            b[1] = (b[1] & !0x0c) | 0x04;
        } else {
            b[1] = (b[1] & !0xc0) | 0x40;
        }
    }
    b
}

fn mutate(a: &mut Adv, f: &mut Vec<u8>) {
    let n = 1 + a.tape.draw(3);
    for _ in 0..n {
        if f.is_empty() {
            return;
        }
        match a.tape.draw(7) {
            0 | 1 | 2 => {
                // header-biased byte set
                let span = f.len().min(96);
                let pos = a.tape.draw(span as u64) as usize;
                f[pos] = match a.tape.draw(4) {
                    0 => interesting(a.tape),
                    1 => f[pos].wrapping_add(1),
                    2 => f[pos].wrapping_sub(1),
                    _ => a.tape.draw(256) as u8,
                };
            }
            3 => {
                let cut = a.tape.draw(f.len() as u64 + 1) as usize;
                f.truncate(cut);
            }
            4 => {
                let n = a.tape_len(64);
                f.extend_from_slice(&rnd_bytes(a.tape, n));
            }
            5 => {
                // splice: repeat a slice of itself
                let s = a.tape.draw(f.len() as u64) as usize;
                let e = (s + a.tape.draw(40) as usize).min(f.len());
                let chunk = f[s..e].to_vec();
                let at = a.tape.draw(f.len() as u64 + 1) as usize;
                for (i, b) in chunk.iter().enumerate() {
                    f.insert((at + i).min(f.len()), *b);
                }
            }
            _ => {
                let pos = a.tape.draw(f.len() as u64) as usize;
                let bit = a.tape.draw(8);
                f[pos] ^= 1 << bit;
            }
        }
    }
    let cap = a.node.dev.mtu + 40;
    if f.len() > cap {
        f.truncate(cap);
    }
}

/// Recompute IPv4 header / transport checksums when the structure still allows locating them,
/// so that damage reaches the inner parsers.
fn repair(medium: Medium, f: &mut [u8]) {
    let off = match medium {
        Medium::Ip => 0,
        Medium::Ethernet => 14,
        Medium::Ieee802154 => return,
    };
    if f.len() < off + 20 {
        return;
    }
    let ip = &mut f[off..];
    let (l4off, proto, src, dst, plen) = match ip[0] >> 4 {
        4 => {
            let ihl = (ip[0] & 0xf) as usize * 4;
            if ihl < 20 || ihl > ip.len() {
                return;
            }
            ip[10] = 0;
            ip[11] = 0;
            let c = inet_csum(&ip[..ihl], 0);
            ip[10] = (c >> 8) as u8;
            ip[11] = c as u8;
            let tl = (((ip[2] as usize) << 8) | ip[3] as usize).min(ip.len());
            if tl < ihl {
                return;
            }
            let mut s = [0u8; 4];
            s.copy_from_slice(&ip[12..16]);
            let mut d = [0u8; 4];
            d.copy_from_slice(&ip[16..20]);
            (ihl, ip[9], IpAddr::V4(s), IpAddr::V4(d), tl - ihl)
        }
        6 => {
            if ip.len() < 40 {
                return;
            }
            let pl = (((ip[4] as usize) << 8) | ip[5] as usize).min(ip.len() - 40);
            let mut s = [0u8; 16];
            s.copy_from_slice(&ip[8..24]);
            let mut d = [0u8; 16];
            d.copy_from_slice(&ip[24..40]);
            (40, ip[6], IpAddr::V6(s), IpAddr::V6(d), pl)
        }
        _ => return,
    };
    let l4 = &mut ip[l4off..l4off + plen];
    let (at, init) = match proto {
        P_TCP if l4.len() >= 20 => (16, pseudo(&src, &dst, P_TCP, l4.len())),
        P_UDP if l4.len() >= 8 => (6, pseudo(&src, &dst, P_UDP, l4.len())),
        P_ICMP if l4.len() >= 4 => (2, 0),
        P_ICMP6 if l4.len() >= 4 => (2, pseudo(&src, &dst, P_ICMP6, l4.len())),
        _ => return,
    };
    l4[at] = 0;
    l4[at + 1] = 0;
    let c = inet_csum(l4, init);
    l4[at] = (c >> 8) as u8;
    l4[at + 1] = c as u8;
}

pub fn run(tape: &mut Tape, props: Props, thorough: bool, trace_on: bool, force: Option<Medium>) -> Outcome {
    let medium = match force {
        Some(m) => m,
        None => match tape.draw(3) {
            0 => Medium::Ip,
            1 => Medium::Ethernet,
            _ => Medium::Ieee802154,
        },
    };
    let mtu = match medium {
        Medium::Ip => *tape.pick(&[1500usize, 576, 1280]),
        Medium::Ethernet => *tape.pick(&[1514usize, 590, 1294]),
        Medium::Ieee802154 => 127,
    };
    let mut cfg = NodeCfg::basic('V', medium, mtu, 1, false);
    let slaac = medium != Medium::Ip && tape.draw(2) == 1;
    cfg.slaac = slaac;
    cfg.seed = 5 + tape.draw(1 << 16);
    let (v4, v6a) = match medium {
        Medium::Ieee802154 => {
            cfg.addrs = vec![(v6(1, true), 64), (v6(1, false), 64)];
            (None, Some(v6(1, true)))
        }
        _ => {
            let six = if medium == Medium::Ethernet { v6(1, true) } else { v6(1, false) };
            cfg.addrs = vec![(IpAddr::V4([10, 0, 0, 1]), 24), (six, 64)];
            (Some(IpAddr::V4([10, 0, 0, 1])), Some(six))
        }
    };
    // rx checksum verification on or offloaded per protocol
    if tape.draw(4) == 3 {
        for k in 0..5 {
            cfg.csum[k] = *tape.pick(&[0u8, 1]);
        }
    }
    let p6 = if medium == Medium::Ip { v6(2, false) } else { v6(2, true) };
    let mut node = build_node(&cfg);
    let mut view = cfg.view();
    // ---- sockets
    let mk_tcp = || tcp::Socket::new(tcp::SocketBuffer::new(vec![0; 1024]), tcp::SocketBuffer::new(vec![0; 1024]));
    let mut listener = mk_tcp();
    listener.listen(80).unwrap();
    let _h_listen = node.sockets.add(listener);
    let h_tcp_conn = node.sockets.add(mk_tcp());
    {
        let use6 = v4.is_none() || tape.draw(2) == 1;
        let remote = if use6 { to_smol(&p6) } else { to_smol(&IpAddr::V4([10, 0, 0, 2])) };
        let cx = node.iface.context();
        let s = node.sockets.get_mut::<tcp::Socket>(h_tcp_conn);
        let _ = s.connect(cx, (remote, 81), 40000);
        if tape.draw(3) == 0 {
            s.set_keep_alive(Some(smoltcp::time::Duration::from_millis(500)));
        }
        if tape.draw(3) == 0 {
            s.set_timeout(Some(smoltcp::time::Duration::from_secs(5)));
        }
    }
    let mut u = udp::Socket::new(udp::PacketBuffer::new(vec![udp::PacketMetadata::EMPTY; 2], vec![0u8; 256]), udp::PacketBuffer::new(vec![udp::PacketMetadata::EMPTY; 2], vec![0u8; 256]));
    u.bind(7000).unwrap();
    let h_udp = node.sockets.add(u);
    let mk_icmp = || icmp::Socket::new(icmp::PacketBuffer::new(vec![icmp::PacketMetadata::EMPTY; 2], vec![0u8; 256]), icmp::PacketBuffer::new(vec![icmp::PacketMetadata::EMPTY; 2], vec![0u8; 256]));
    let mut i1 = mk_icmp();
    i1.bind(icmp::Endpoint::Ident(0x2222)).unwrap();
    node.sockets.add(i1);
    let mut i2 = mk_icmp();
    i2.bind(icmp::Endpoint::Udp(7000.into())).unwrap();
    node.sockets.add(i2);
    let mut i3 = mk_icmp();
    i3.bind(icmp::Endpoint::Tcp(40000.into())).unwrap();
    node.sockets.add(i3);
    if medium != Medium::Ieee802154 {
        for (ver, proto) in [(IpVersion::Ipv4, 253u8), (IpVersion::Ipv6, 253u8)] {
            let r = raw::Socket::new(Some(ver), Some(IpProtocol::from(proto)), raw::PacketBuffer::new(vec![raw::PacketMetadata::EMPTY; 2], vec![0u8; 512]), raw::PacketBuffer::new(vec![raw::PacketMetadata::EMPTY; 2], vec![0u8; 512]));
            node.sockets.add(r);
        }
    }
    // DNS with queries in flight
    let servers: Vec<smoltcp::wire::IpAddress> = if v4.is_some() { vec![to_smol(&IpAddr::V4([10, 0, 0, 2]))] } else { vec![to_smol(&p6)] };
    let mut d = dns::Socket::new(&servers, vec![]);
    {
        let cx = node.iface.context();
        let _ = d.start_query(cx, "host.example", DnsQueryType::A);
        let _ = d.start_query(cx, "printer.local", DnsQueryType::Aaaa);
    }
    let h_dns = node.sockets.add(d);
    if medium == Medium::Ethernet {
        node.sockets.add(dhcpv4::Socket::new());
        // nobody applies the leases the adversary hands out in this scenario
        view.dhcp_unmanaged = true;
    }
    if medium == Medium::Ethernet || medium == Medium::Ip {
        if tape.draw(2) == 0 {
            let _ = node.iface.join_multicast_group(smoltcp::wire::Ipv4Address::new(224, 0, 0, 66));
        }
    }
    // (on Ethernet the interface is also a member of its solicited-node groups; on the other media this is its only
    // IPv6 group)
    if tape.draw(2) == 0 {
        let _ = node.iface.join_multicast_group(smoltcp::wire::Ipv6Address::new(0xff02, 0, 0, 0, 0, 0, 0, 0x42));
    }
    // 6LoWPAN address contexts (context-based compression modes index into this table with a 4-bit identifier
    // taken from the frame)
    let mut ctx6: Ctx6 = vec![];
    if medium == Medium::Ieee802154 && tape.draw(2) == 0 {
        for k in 0..1 + tape.draw(2) as u8 {
            let pfx = [0xfd, 0x00, 0, 0, 0, 0, 0, k];
            if node.iface.sixlowpan_address_context_mut().push(smoltcp::wire::SixlowpanAddressContext(pfx)).is_ok() {
                let mut p = [0u8; 16];
                p[..8].copy_from_slice(&pfx);
                ctx6.push((p, 64));
            }
        }
    }
    let desc = format!("adversary medium={:?} mtu={} slaac={} csum={:?} 6lowpan-contexts={}", medium, mtu, slaac, cfg.csum, ctx6.len());
    let mut a = Adv { tape, props, node, view, medium, now: 1_000_000, stats: Stats::default(), hash: LogHash::new(), trace: vec![], trace_on, events: 0, v4, v6a, p4: IpAddr::V4([10, 0, 0, 2]), p6, seqno: 0, tcp_est: Some((40000, 81, 0, 0)), dns_q: vec![], dhcp_xid: None, history: vec![], h_tcp_conn, ctx6, bp: false, mld_general_query: false };
    a.bp = a.tape.draw(3) == 0;
    let r = body(&mut a, thorough, h_udp, h_dns);
    let nontrivial = a.stats.get("adv.frames") >= 10 && a.stats.get("adv.mutated") >= 1;
    a.stats.add("sim.seconds", (a.now / 1_000_000) as u64);
    let viol = r.err();
    Outcome { viol, stats: a.stats, hash: a.hash, nontrivial, trace: a.trace, sim_us: a.now, events: a.events, cfg_desc: desc }
}

fn body(a: &mut Adv, thorough: bool, h_udp: SocketHandle, h_dns: SocketHandle) -> Result<(), Violation> {
    let mut dns_handles: Vec<dns::QueryHandle> = vec![];
    a.poll()?;
    let n = a.tape.range(10, if thorough { 600 } else { 150 });
    for _ in 0..n {
        // ---- time
        let dt = match a.tape.draw(10) {
            0 | 1 | 2 | 3 => 0,
            4 | 5 => a.tape.range(1, 5_000) as i64,
            6 => a.tape.range(1, 2_000_000) as i64,
            7 => *a.tape.pick(&[1_000_000i64, 10_000_000, 61_000_000]),
            8 => *a.tape.pick(&[3_600_000_000i64, 86_400_000_000, 30 * 86_400_000_000]),
            _ => 100,
        };
        a.now += dt;
        // ---- socket activity so that sockets move through their states
        if a.tape.draw(8) == 0 {
            let s = a.node.sockets.get_mut::<udp::Socket>(h_udp);
            let dst = a.v4.map(|_| a.p4).unwrap_or(a.p6);
            let _ = guard("udp::send_slice", || s.send_slice(b"ping", (to_smol(&dst), 9)))?;
            let mut buf = [0u8; 300];
            let _ = guard("udp::recv_slice", || s.recv_slice(&mut buf))?;
        }
        if a.tape.draw(8) == 0 {
            let h = a.h_tcp_conn;
            let s = a.node.sockets.get_mut::<tcp::Socket>(h);
            let _ = guard("tcp::send_slice", || s.send_slice(b"some application data"))?;
            let mut buf = [0u8; 300];
            let _ = guard("tcp::recv_slice", || s.recv_slice(&mut buf))?;
            if a.tape.draw(8) == 0 {
                let s = a.node.sockets.get_mut::<tcp::Socket>(h);
                guard("tcp::close", || s.close())?;
            }
        }
        // ---- now and then a *valid* large datagram arriving as proper IPv4 fragments, sized around the
        // reassembly / fragmentation buffer and MTU boundaries: the reply (echo reply, port unreachable)
        // has to go back through the egress fragmentation path
        if a.medium != Medium::Ieee802154 && a.v4.is_some() && a.tape.draw(24) == 23 {
            let (v, p) = (a.v4.unwrap(), a.p4);
            let l2 = if a.medium == Medium::Ethernet { 14 } else { 0 };
            let len = match a.tape.draw(7) {
                // the whole datagram (and so the reply) is 1..16 octets longer than what fits one frame: the second
                // fragment is tiny
                5 | 6 => (a.node.dev.mtu - l2 - 28) + 1 + a.tape.draw(16) as usize,
                0 => a.tape.range(1440, 1540) as usize,
                1 => a.tape.range(1465, 1500) as usize,
                2 => a.node.dev.mtu.saturating_sub(60) + a.tape.draw(80) as usize,
                3 => a.tape.range(500, 3000) as usize,
                _ => a.tape.range(1400, 1480) as usize,
            };
            let data = rnd_bytes(a.tape, len);
            let l4 = match a.tape.draw(3) {
                0 => (P_UDP, enc_udp(&p, &v, 4000, *a.tape.pick(&[7000u16, 9]), &data)),
                _ => (P_ICMP, enc_icmp(false, &p, &v, 8, 0, [0x44, 0x44, 0, 7], &data)),
            };
            let fsz = *a.tape.pick(&[1480usize, 1000, 512, 256, 64, 8]);
            let ident = 0x7000 + a.tape.draw(256) as u16;
            let mut frags = vec![];
            let mut off = 0;
            while off < l4.1.len() {
                let end = (off + fsz).min(l4.1.len());
                let o = V4Opts { ident, df: false, mf: end < l4.1.len(), frag_off: off, tos: 0 };
                frags.push(enc_ipv4(p.v4(), v.v4(), l4.0, 64, &o, &l4.1[off..end]));
                off = end;
            }
            if a.tape.draw(4) == 0 {
                frags.reverse();
            }
            a.stats.inc("adv.valid-fragmented-datagrams");
            for f in frags {
                let fr = a.wrap(f, false);
                a.stats.inc("adv.frames");
                a.deliver(fr, true)?;
            }
            if a.tape.draw(2) == 0 {
                a.poll()?;
            }
            continue;
        }
        // ---- rarely used API calls between frames: leaving / joining multicast groups, cancelling and restarting
        // DNS queries, reading query results
        if a.tape.draw(16) == 0 {
            match a.tape.draw(6) {
                0 if a.medium != Medium::Ieee802154 && a.v4.is_some() => {
                    let iface = &mut a.node.iface;
                    let _ = guard("leave_multicast_group", || iface.leave_multicast_group(smoltcp::wire::Ipv4Address::new(224, 0, 0, 66)))?;
                }
                1 if a.medium != Medium::Ieee802154 && a.v4.is_some() => {
                    let iface = &mut a.node.iface;
                    let _ = guard("join_multicast_group", || iface.join_multicast_group(smoltcp::wire::Ipv4Address::new(224, 0, 0, 66)))?;
                }
                2 => {
                    let iface = &mut a.node.iface;
                    let g = smoltcp::wire::Ipv6Address::new(0xff02, 0, 0, 0, 0, 0, 0, 0x42);
                    if a.tape.draw(2) == 0 {
                        let _ = guard("join_multicast_group", || iface.join_multicast_group(g))?;
                    } else {
                        let _ = guard("leave_multicast_group", || iface.leave_multicast_group(g))?;
                    }
                }
                3 => {
                    let n = &mut a.node;
                    let cx = n.iface.context();
                    let s = n.sockets.get_mut::<dns::Socket>(h_dns);
                    let name = *a.tape.pick(&["again.example", "trailing.dot.example.", "x.local", "a", "printer.local"]);
                    if let Ok(Ok(hq)) = guard("dns::start_query", || s.start_query(cx, name, DnsQueryType::A)) {
                        dns_handles.push(hq);
                    }
                }
                4 => {
                    if let Some(hq) = dns_handles.pop() {
                        let s = a.node.sockets.get_mut::<dns::Socket>(h_dns);
                        guard("dns::cancel_query", || s.cancel_query(hq))?;
                    }
                }
                _ => {
                    if let Some(hq) = dns_handles.last().copied() {
                        let s = a.node.sockets.get_mut::<dns::Socket>(h_dns);
                        let done = guard("dns::get_query_result", || !matches!(s.get_query_result(hq), Err(dns::GetQueryResultError::Pending)))?;
                        if done {
                            dns_handles.pop();
                        }
                    }
                }
            }
            a.stats.inc("adv.api-calls");
        }
        // ---- one adversarial frame
        let kind = a.tape.draw(12);
        let mut frame: Vec<u8> = if kind == 0 && a.medium == Medium::Ethernet {
            gen_arp(a)
        } else if kind <= 2 && a.medium == Medium::Ieee802154 {
            gen_6lowpan_special(a)
        } else if kind == 3 && !a.history.is_empty() {
            // replay
            a.stats.inc("adv.replayed");
            let i = a.tape.draw(a.history.len() as u64) as usize;
            a.history[i].clone()
        } else {
            let (ip, bc) = gen_ip(a);
            if ip.is_empty() {
                continue;
            }
            a.wrap(ip, bc)
        };
        if frame.is_empty() {
            continue;
        }
        a.stats.inc("adv.frames");
        if a.tape.draw(2) == 1 {
            mutate(a, &mut frame);
            a.stats.inc("adv.mutated");
            if a.tape.draw(2) == 1 {
                repair(a.medium, &mut frame);
                a.stats.inc("adv.checksums-repaired");
            }
        }
        if frame.len() > a.node.dev.mtu + 64 {
            frame.truncate(a.node.dev.mtu + 64);
        }
        if a.history.len() < 64 && a.tape.draw(4) == 0 {
            a.history.push(frame.clone());
        }
        if a.trace_on {
            let s = hexs(&frame);
            a.log(|| format!("ADV rx {} bytes: {}", frame.len(), s));
        }
        let single = a.tape.draw(2) == 0;
        let out = a.deliver(frame, single)?;
        // right after an MLD general query the application sometimes leaves its group: the report that falls due a
        // little later may have nothing to say
        if std::mem::take(&mut a.mld_general_query) && a.tape.draw(2) == 0 {
            let iface = &mut a.node.iface;
            let _ = guard("leave_multicast_group", || iface.leave_multicast_group(smoltcp::wire::Ipv6Address::new(0xff02, 0, 0, 0, 0, 0, 0, 0x42)))?;
            a.stats.inc("adv.group-left-after-a-general-query");
            a.poll()?;
            a.now += *a.tape.pick(&[1_000i64, 300_000, 5_000_000, 70_000_000]);
            a.poll()?;
        }
        // a plausible peer answers the victim's SYN (so that the connecting socket gets established)
        for p in out.iter().flatten() {
            if let Some((ip, t)) = p.tcp() {
                if t.has(F_SYN) && !t.has(F_ACK) && t.dport == 81 && a.tape.draw(2) == 0 {
                    let irs = 0x1000;
                    a.tcp_est = Some((t.sport, 81, t.seq.wrapping_add(1), irs + 1));
                    let sa = Tcp { sport: 81, dport: t.sport, seq: irs, ack: t.seq.wrapping_add(1), flags: F_SYN | F_ACK, win: 4096, opts: TcpOpts { mss: Some(536), ..TcpOpts::default() }, ..Tcp::default() };
                    let ipb = enc_ip(&ip.dst, &ip.src, P_TCP, 64, &enc_tcp(&ip.dst, &ip.src, &sa));
                    let f = a.wrap(ipb, false);
                    a.deliver(f, true)?;
                    break;
                }
            }
        }
        if a.tape.draw(3) == 0 {
            a.poll()?;
        }
    }
    probe(a)
}

/// Trailing well-formed request: an ICMP echo request must still be answered.
fn probe(a: &mut Adv) -> Result<(), Violation> {
    if !a.props.has("C03") {
        return Ok(());
    }
    // let pending work drain on an accepting device
    a.bp = false;
    a.node.dev.tx_budget = None;
    a.now += 2_000_000;
    a.poll()?;
    let use6 = a.v4.is_none();
    let (v, p) = a.pair(use6).unwrap();
    let is6 = !v.is_v4();
    let mut answered = false;
    'outer: for attempt in 0..12 {
        let rest = [0x77, 0x77, 0, attempt as u8];
        let m = enc_icmp(is6, &p, &v, if is6 { 128 } else { 8 }, 0, rest, b"probe-after-the-storm");
        let ip = enc_ip(&p, &v, if is6 { P_ICMP6 } else { P_ICMP }, 64, &m);
        // the probe is written in the plainest encoding
        let f = match a.medium {
            Medium::Ieee802154 => {
                let comp = enc_iphc(&ip, &Addr154::Ext(P_LL8), &Addr154::Ext(V_LL8), &IphcOpts { tf: 3, sam: 0, dam: 0, hlim_inline: true, nhc_udp: false, udp_elide_checksum: false });
                enc_154(&data_frame(a.next_seq(), PAN, Addr154::Ext(V_LL8), Addr154::Ext(P_LL8), comp))
            }
            _ => a.wrap(ip, false),
        };
        let mut outs = a.deliver(f, false)?;
        // exact polling for up to ~1 s, answering neighbour discovery
        for _ in 0..6 {
            let mut replies: Vec<Vec<u8>> = vec![];
            for pk in outs.iter().flatten() {
                let is_reply = match &pk.l4 {
                    Some(L4::Icmp4(i)) => i.typ == 0 && i.rest[0] == 0x77,
                    Some(L4::Icmp6(i)) => i.typ == 129 && i.rest[0] == 0x77,
                    _ => false,
                };
                if is_reply {
                    answered = true;
                    break 'outer;
                }
                if let Some(arp) = &pk.arp {
                    if arp.op == 1 && IpAddr::V4(arp.tpa) == a.p4 {
                        let r = Arp { op: 2, sha: P_MAC, spa: arp.tpa, tha: arp.sha, tpa: arp.spa };
                        replies.push(enc_eth(arp.sha, P_MAC, ETH_ARP, &enc_arp(&r)));
                    }
                }
                if let (Some(ip), Some(L4::Icmp6(i))) = (&pk.ip, &pk.l4) {
                    if i.typ == 135 && i.body.len() >= 16 && i.body[..16] == *a.p6.bytes() {
                        // neighbour advertisement (solicited, override) with target link-layer option
                        let mut body = a.p6.bytes().to_vec();
                        if a.medium == Medium::Ieee802154 {
                            body.extend_from_slice(&[2, 2]);
                            body.extend_from_slice(&P_LL8);
                            body.extend_from_slice(&[0; 6]);
                        } else {
                            body.extend_from_slice(&[2, 1]);
                            body.extend_from_slice(&P_MAC);
                        }
                        let dst = if ip.src.is_unspecified() { IpAddr::V6([0xff, 2, 0, 0, 0, 0, 0, 0, 0, 0, 0, 0, 0, 0, 0, 1]) } else { ip.src };
                        let m = enc_icmp(true, &a.p6, &dst, 136, 0, [0x60, 0, 0, 0], &body);
                        let ipb = enc_ip(&a.p6, &dst, P_ICMP6, 255, &m);
                        let f = match a.medium {
                            Medium::Ieee802154 => {
                                let comp = enc_iphc(&ipb, &Addr154::Ext(P_LL8), &Addr154::Ext(V_LL8), &IphcOpts { tf: 3, sam: 0, dam: 0, hlim_inline: true, nhc_udp: false, udp_elide_checksum: false });
                                enc_154(&data_frame(a.next_seq(), PAN, Addr154::Ext(V_LL8), Addr154::Ext(P_LL8), comp))
                            }
                            _ => a.wrap(ipb, false),
                        };
                        replies.push(f);
                    }
                }
            }
            outs.clear();
            for f in replies {
                let mut o = a.deliver(f, false)?;
                outs.append(&mut o);
            }
            if outs.is_empty() {
                // sleep until the deadline the interface asked for (bounded)
                let d = a.node.poll_at(a.now)?;
                let next = match d {
                    Some(t) if t > a.now => t.min(a.now + 300_000),
                    Some(_) => a.now + 1_000,
                    None => a.now + 300_000,
                };
                a.now = next;
                outs = a.poll()?;
            }
        }
        a.now += 700_000;
    }
    a.stats.inc("adv.probes");
    // the interface must also come to rest: on an accepting device, polls that move no frame are followed by a
    // deadline in the future (or none) - an interface left with something it can never finish keeps asking to be
    // polled at once, and an event loop built on poll_at spins
    if answered {
        a.now += 5_000_000;
        let mut idle_now = 0;
        for _ in 0..40 {
            let outs = a.poll()?;
            let d = a.node.poll_at(a.now)?;
            match d {
                Some(t) if t <= a.now => {
                    if outs.is_empty() {
                        idle_now += 1;
                    } else {
                        idle_now = 0;
                    }
                    if idle_now >= 8 {
                        return Err(viol("C03", "still-answers", format!("C03.wedged/poll_at-stays-now-without-progress/{:?}", a.medium), format!("after the adversarial sequence, {} consecutive polls at t={} us moved no frame and poll_at still returns {} us: the interface never comes to rest", idle_now, a.now, t)));
                    }
                }
                Some(t) => {
                    idle_now = 0;
                    a.now = t.min(a.now + 2_000_000);
                }
                None => break,
            }
        }
    }
    if !answered {
        return Err(viol(
            "C03",
            "still-answers",
            format!("C03.wedged/{:?}", a.medium),
            format!("after the adversarial sequence the interface no longer answers an ICMP echo request to {} (12 attempts over more than 10 s, neighbour discovery answered)", v),
        ));
    }
    Ok(())
}
