//! T1 scenario: two real nodes exchanging datagrams (UDP, ICMP echo) over a faulty link,
//! IPv4 (with fragmentation) or IPv6, medium Ip or Ethernet (neighbour resolution delays),
//! device back-pressure. Serves C09 (FIFO reference model per socket), C12 (fragmentation /
//! reassembly), C16 (resolved next hop, solicitation rate), C13 probes, plus the always-on tap.

use crate::codec::*;
use crate::core::*;
use crate::mk::*;
use crate::tape::{stream_byte, Tape};
use crate::world::*;
use smoltcp::iface::SocketHandle;
use smoltcp::socket::{icmp, udp};
use smoltcp::wire::{IpEndpoint, IpListenEndpoint};
use std::collections::{BTreeMap, VecDeque};

#[derive(Clone, Copy, Debug)]
pub struct Params {
    pub thorough: bool,
    /// bias toward oversized datagrams (C12)
    pub frag_heavy: bool,
    pub exact: bool,
}

#[derive(Clone, Debug, PartialEq, Eq)]
struct Dg {
    payload: Vec<u8>,
    src: Option<IpAddr>,
    sport: u16,
    dst: IpAddr,
    dport: u16,
    hop: u8,
    /// fits the link or the fragmentation buffer: must be transmitted exactly once
    fits: bool,
    resolvable: bool,
    seq: u64,
}

#[derive(Clone, Debug, PartialEq, Eq)]
struct Arrival {
    payload: Vec<u8>,
    src: IpAddr,
    sport: u16,
    dst: IpAddr,
}

#[derive(Clone, Copy, PartialEq, Eq, Debug)]
enum Kind {
    Udp,
    Icmp,
}

struct Sock {
    kind: Kind,
    h: SocketHandle,
    /// UDP port or ICMP ident
    port: u16,
    bound_addr: Option<IpAddr>,
    key: u64,
    next_seq: u64,
    txq: VecDeque<Dg>,
    arrivals: Vec<Arrival>,
    arr_ptr: usize,
    /// reassembled datagrams: (content, reassembly key, times delivered); completion time is
    /// implementation-dependent, so these are matched as a multiset, not in arrival order
    frag_arrivals: Vec<(Arrival, (IpAddr, u16, u8), u32)>,
    rx_meta: usize,
    rx_bytes: usize,
    tx_meta: usize,
    tx_bytes: usize,
    hop: Option<u8>,
    open: bool,
}

struct FragAcc {
    /// the model datagram this fragment train was matched with at its first fragment
    dg: Option<(usize, Dg)>,
    proto: u8,
    src: IpAddr,
    dst: IpAddr,
    next_off: usize,
    bytes: Vec<u8>,
    hop: u8,
}

/// Reference reassembly at a receiver (independent of smoltcp).
struct RxAcc {
    ranges: Vec<(usize, usize)>,
    bytes: Vec<u8>,
    total: Option<usize>,
    first_at: i64,
    max_ranges: usize,
    src: IpAddr,
    dst: IpAddr,
    proto: u8,
    /// copies seen of each distinct fragment (offset, len)
    copies: BTreeMap<(usize, usize), u32>,
    registered: bool,
}

struct St {
    p: Params,
    socks: [Vec<Sock>; 2],
    frag_tx: [BTreeMap<u16, FragAcc>; 2],
    frag_rx: [BTreeMap<(IpAddr, u16, u8), RxAcc>; 2],
    /// must-deliver bookkeeping for fragments: current reassembly key and poison deadline
    cur_rx: [Option<(IpAddr, u16, u8)>; 2],
    completed_rx: [Vec<(IpAddr, u16, u8)>; 2],
    poison_until: [i64; 2],
    addrs: [IpAddr; 2],
    macs: [[u8; 6]; 2],
    mtu_ip: [usize; 2],
    medium: Medium,
    v6: bool,
    backpressure: bool,
    ops_left: u32,
    last_solicit: [Option<i64>; 2],
    touch: [u64; 2],
    probes: [Option<(u64, u64)>; 2],
    spin: [(i64, u32); 2],
    last_refused: [bool; 2],
    /// when each node learned the peer's hardware address from a valid ARP/NDISC message
    learned: [Option<i64>; 2],
    frag_buf: usize,
    /// IPv4 directed broadcast address of the common subnet (none in a /31, none on IPv6)
    bcast: Option<IpAddr>,
    /// pending must-deliver expectation: (node, sock index, size)
    expect: Option<(usize, usize, usize, usize)>,
    incomplete_tx: [Option<u16>; 2],
    /// parallel to each device's rx queue: which (socket, arrival index) the queued frame completes
    pending: [VecDeque<Option<(usize, usize)>>; 2],
}

fn pick_meta(t: &mut Tape) -> usize {
    *t.pick(&[4usize, 1, 2, 3, 8])
}
fn pick_bytes(t: &mut Tape, frag: bool) -> usize {
    if frag {
        *t.pick(&[4096usize, 2048, 3000, 1500, 8192])
    } else {
        *t.pick(&[1024usize, 16, 33, 64, 100, 256, 2048, 4096])
    }
}

pub fn run(tape: &mut Tape, props: Props, p: &Params, trace_on: bool) -> Outcome {
    let medium = match tape.draw(4) {
        0 | 1 => Medium::Ip,
        _ => Medium::Ethernet,
    };
    let v6 = if p.frag_heavy { tape.draw(8) == 7 } else { tape.draw(2) == 1 };
    let l2 = if medium == Medium::Ethernet { 14 } else { 0 };
    let mut mtu = [0usize; 2];
    for m in mtu.iter_mut() {
        *m = l2 + if v6 {
            *tape.pick(&[1500usize, 1280, 1400])
        } else if p.frag_heavy {
            // every residue mod 8 shows up over the seeds
            let base = *tape.pick(&[1500usize, 576, 68, 100, 200, 296, 1006, 508]);
            base + tape.draw(8) as usize
        } else {
            *tape.pick(&[1500usize, 576, 128, 68, 300, 1280])
        };
    }
    let mut cfgs = [NodeCfg::basic('A', medium, mtu[0], 1, v6), NodeCfg::basic('B', medium, mtu[1], 2, v6)];
    for c in cfgs.iter_mut() {
        c.seed = 100 + tape.draw(1 << 20);
    }
    // narrow IPv4 subnets: a /30 (broadcast 10.0.0.3) or a point-to-point /31, which has no broadcast address at
    // all (RFC 3021) - both of its addresses are ordinary hosts
    let mut subnet = 24u8;
    if !v6 {
        match tape.draw(8) {
            7 => {
                subnet = 31;
                cfgs[0].addrs = vec![(IpAddr::V4([10, 0, 0, 2]), 31)];
                cfgs[1].addrs = vec![(IpAddr::V4([10, 0, 0, 3]), 31)];
            }
            6 => {
                subnet = 30;
                cfgs[0].addrs = vec![(IpAddr::V4([10, 0, 0, 1]), 30)];
                cfgs[1].addrs = vec![(IpAddr::V4([10, 0, 0, 2]), 30)];
            }
            5 => {
                // addresses whose 16-bit words add up to almost 0xffff (the pseudo-header sum of some datagram lengths
                // then lands exactly where the end-around carry has to be folded twice)
                cfgs[0].addrs = vec![(IpAddr::V4([192, 168, 63, 60]), 24)];
                cfgs[1].addrs = vec![(IpAddr::V4([192, 168, 63, 61]), 24)];
            }
            _ => {}
        }
    } else if tape.draw(4) == 0 {
        for (i, c) in cfgs.iter_mut().enumerate() {
            let mut a = [0u8; 16];
            a[0] = 0xfd;
            a[12] = 0x02;
            a[13] = 0xef;
            a[15] = 1 + i as u8;
            c.addrs = vec![(IpAddr::V6(a), 64)];
        }
    }
    let backpressure = tape.draw(4) == 3;
    let mut link = LinkCfg::draw(tape, if p.thorough { 60 } else { 20 });
    // checksum capability variants (rare); a frame is damaged only when its receiver verifies every checksum covering it
    link.corrupt_ok = [true, true];
    link.rx_verify = Some(draw_checksum_caps(tape, &mut cfgs));
    let mut nodes = vec![build_node(&cfgs[0]), build_node(&cfgs[1])];
    let views = vec![cfgs[0].view(), cfgs[1].view()];
    let addrs = [cfgs[0].addrs[0].0, cfgs[1].addrs[0].0];
    let mut socks: [Vec<Sock>; 2] = [vec![], vec![]];
    let mut desc_socks = String::new();
    for n in 0..2 {
        // two UDP sockets and one ICMP socket per node
        for k in 0..3 {
            let kind = if k < 2 { Kind::Udp } else { Kind::Icmp };
            let rx_meta = pick_meta(tape);
            let tx_meta = pick_meta(tape);
            let rx_bytes = pick_bytes(tape, p.frag_heavy);
            let tx_bytes = pick_bytes(tape, p.frag_heavy);
            let hop = match tape.draw(4) {
                3 => Some(*tape.pick(&[1u8, 2, 64, 255, 17])),
                _ => None,
            };
            let (h, port, bound_addr) = match kind {
                Kind::Udp => {
                    let mut s = udp::Socket::new(
                        udp::PacketBuffer::new(vec![udp::PacketMetadata::EMPTY; rx_meta], vec![0u8; rx_bytes]),
                        udp::PacketBuffer::new(vec![udp::PacketMetadata::EMPTY; tx_meta], vec![0u8; tx_bytes]),
                    );
                    let port = 7000 + 100 * k as u16 + n as u16;
                    let bind_addr = k == 1 && tape.draw(2) == 1;
                    if bind_addr {
                        s.bind(IpListenEndpoint { addr: Some(to_smol(&addrs[n])), port }).unwrap();
                    } else {
                        s.bind(port).unwrap();
                    }
                    s.set_hop_limit(hop);
                    (nodes[n].sockets.add(s), port, if bind_addr { Some(addrs[n]) } else { None })
                }
                Kind::Icmp => {
                    let mut s = icmp::Socket::new(
                        icmp::PacketBuffer::new(vec![icmp::PacketMetadata::EMPTY; rx_meta], vec![0u8; rx_bytes]),
                        icmp::PacketBuffer::new(vec![icmp::PacketMetadata::EMPTY; tx_meta], vec![0u8; tx_bytes]),
                    );
                    let ident = 0x1111 * (n as u16 + 1);
                    s.bind(icmp::Endpoint::Ident(ident)).unwrap();
                    s.set_hop_limit(hop);
                    (nodes[n].sockets.add(s), ident, None)
                }
            };
            desc_socks += &format!(" {}{}[{:?} rx={}x{} tx={}x{} hop={:?}]", cfgs[n].name, k, kind, rx_meta, rx_bytes, tx_meta, tx_bytes, hop);
            socks[n].push(Sock { kind, h, port, bound_addr, key: tape.draw(u64::MAX) | 1, next_seq: 0, txq: VecDeque::new(), arrivals: vec![], arr_ptr: 0, frag_arrivals: vec![], rx_meta, rx_bytes, tx_meta, tx_bytes, hop, open: true });
        }
    }
    let ops = tape.range(5, if p.thorough { 400 } else { 120 }) as u32;
    let desc = format!("dgram-pair medium={:?} v6={} /{} mtu={:?} backpressure={} frag_heavy={} exact={} ops={} csum=[{:?},{:?}] socks:{} {}", medium, v6, subnet, mtu, backpressure, p.frag_heavy, p.exact, ops, cfgs[0].csum, cfgs[1].csum, desc_socks, link.describe());
    let mut w = World::new(nodes, views, link, props, trace_on);
    w.schedule(0, Ev::App { node: 0 });
    w.schedule(0, Ev::App { node: 1 });
    let mut st = St {
        p: *p,
        socks,
        frag_tx: [BTreeMap::new(), BTreeMap::new()],
        frag_rx: [BTreeMap::new(), BTreeMap::new()],
        cur_rx: [None, None],
        completed_rx: [vec![], vec![]],
        poison_until: [0, 0],
        addrs,
        macs: [cfgs[0].mac, cfgs[1].mac],
        mtu_ip: [mtu[0] - l2, mtu[1] - l2],
        medium,
        v6,
        backpressure,
        ops_left: ops,
        last_solicit: [None, None],
        touch: [0, 0],
        probes: [None, None],
        spin: [(0, 0); 2],
        last_refused: [false; 2],
        learned: [None, None],
        frag_buf: 1500,
        bcast: if v6 || subnet >= 31 {
            None
        } else {
            let b = cfgs[0].addrs[0].0.v4();
            Some(IpAddr::V4([b[0], b[1], b[2], (0xffu32 >> (subnet as u32 - 24)) as u8]))
        },
        expect: None,
        incomplete_tx: [None, None],
        pending: [VecDeque::new(), VecDeque::new()],
    };
    let r = main_loop(&mut w, &mut st, tape);
    let viol = r.err();
    let faults: u64 = w.stats.c.iter().filter(|(k, _)| k.starts_with("fault.")).map(|(_, v)| *v).sum();
    let nontrivial = if p.frag_heavy { w.stats.get("dgram.fragmented-tx") > 0 && faults > 0 } else { w.stats.get("dgram.delivered") >= 3 && faults > 0 };
    w.stats.add("sim.seconds", (w.now / 1_000_000) as u64);
    Outcome { viol, stats: w.stats.clone(), hash: w.hash, nontrivial, trace: std::mem::take(&mut w.trace), sim_us: w.now, events: w.events, cfg_desc: desc }
}

fn main_loop(w: &mut World, st: &mut St, tape: &mut Tape) -> Result<(), Violation> {
    let ev_cap: u64 = if st.p.thorough { 60_000 } else { 15_000 };
    loop {
        if w.events >= ev_cap {
            w.stats.inc("run.event-cap");
            return Ok(());
        }
        let Some(ev) = w.pop() else {
            w.stats.inc("run.quiescent");
            return quiescence_check(w, st);
        };
        if w.now > w.link.fault_end + 300_000_000 {
            w.stats.inc("run.time-cap");
            // 300 s after the last fault: only a datagram that can never be sent may still be at
            // the head of a queue (it legitimately blocks those behind it)
            return settled_check(w, st);
        }
        match ev {
            Ev::Arrive { to, frame, corrupted, pkt } => {
                st.touch[to] += 1;
                w.stats.inc("frames.delivered");
                let alone = w.nodes[to].dev.rx.is_empty();
                let mut tag = None;
                if w.trace_on {
                    let sm = pkt.as_ref().map(|p| p.summary()).unwrap_or_else(|| "(damaged)".into());
                    let nm = w.nodes[to].name;
                    w.log(|| format!("{} rx {}", nm, sm));
                }
                if let Some(p) = &pkt {
                    tag = on_arrive(w, st, to, p, alone)?;
                }
                if (corrupted == 1 || corrupted == 4) && w.props.has("C08") && alone {
                    c08c_check(w, st, to, frame, tape, corrupted == 4)?;
                    service(w, st, to, tape)?;
                } else if corrupted == 4 {
                    // only ever delivered under the C08 single-frame check (the listed C08 finding would
                    // otherwise surface as an unexpected delivery in the datagram model): here it is a drop
                    w.stats.inc("fault.drop");
                } else {
                    // now and then a UDP datagram arrives with a few more octets in the IP payload than its own
                    // length field covers (legal; the IP length fields are adjusted): the datagram is what the UDP
                    // length says
                    let mut frame = frame;
                    if corrupted == 0 && w.faults_active() && tape.chance(1, 30) {
                        if let Some(p) = &pkt {
                            if let (Some(ip), Some(L4::Udp(_))) = (&p.ip, &p.l4) {
                                if !ip.is_fragment() {
                                    let l2 = if p.eth.is_some() { 14 } else { 0 };
                                    let k = 1 + tape.draw(8) as usize;
                                    for j in 0..k {
                                        frame.push(0xa0 + j as u8);
                                    }
                                    if ip.v4.is_some() {
                                        let ihl = ((frame[l2] & 0x0f) as usize) * 4;
                                        let tl = (((frame[l2 + 2] as usize) << 8) | frame[l2 + 3] as usize) + k;
                                        frame[l2 + 2] = (tl >> 8) as u8;
                                        frame[l2 + 3] = tl as u8;
                                        if frame[l2 + 10] != 0 || frame[l2 + 11] != 0 {
                                            frame[l2 + 10] = 0;
                                            frame[l2 + 11] = 0;
                                            let cs = inet_csum(&frame[l2..l2 + ihl], 0);
                                            frame[l2 + 10] = (cs >> 8) as u8;
                                            frame[l2 + 11] = cs as u8;
                                        }
                                    } else {
                                        let pl = (((frame[l2 + 4] as usize) << 8) | frame[l2 + 5] as usize) + k;
                                        frame[l2 + 4] = (pl >> 8) as u8;
                                        frame[l2 + 5] = pl as u8;
                                    }
                                    w.stats.inc("fault.udp-with-trailing-octets-in-the-ip-payload");
                                }
                            }
                        }
                    }
                    w.nodes[to].dev.rx.push_back(frame);
                    st.pending[to].push_back(tag);
                    if !st.p.exact && tape.chance(1, 8) {
                        let d = tape.range(1, 20_000) as i64;
                        st.expect = None;
                        w.schedule(w.now + d, Ev::App { node: to });
                    } else {
                        service(w, st, to, tape)?;
                    }
                }
            }
            Ev::Deadline { node, generation } => {
                if generation == w.gens[node] {
                    if !st.p.exact && tape.chance(1, 10) {
                        let d = *tape.pick(&[1_000i64, 50_000, 700_000, 5_000_000]);
                        w.gens[node] += 1;
                        w.schedule(w.now + d, Ev::App { node });
                    } else {
                        service(w, st, node, tape)?;
                    }
                }
            }
            Ev::App { node } => service(w, st, node, tape)?,
            Ev::FaultEnd => {}
            Ev::Misc(k) if k < 2 => w.release_swap(k as usize),
            Ev::Misc(k) if k >= 100 && k < 102 => probe_fire(w, st, (k - 100) as usize, tape)?,
            Ev::Misc(_) => {}
        }
    }
}

fn sock_by_port(st: &St, n: usize, kind: Kind, port: u16) -> Option<usize> {
    st.socks[n].iter().position(|s| s.kind == kind && s.port == port)
}

/// A valid packet reaches node `to`: update the reference model of what arrived for which socket.
fn on_arrive(w: &mut World, st: &mut St, to: usize, p: &Packet, alone: bool) -> Result<Option<(usize, usize)>, Violation> {
    st.expect = None;
    // neighbour learning (C16): ARP / NS / NA carrying the peer's hardware address
    if let Some(a) = &p.arp {
        if IpAddr::V4(a.tpa) == st.addrs[to] && IpAddr::V4(a.spa) == st.addrs[1 - to] && a.sha == st.macs[1 - to] {
            st.learned[to] = Some(w.now);
        }
        return Ok(None);
    }
    let Some(ip) = &p.ip else { return Ok(None) };
    if let Some(L4::Icmp6(i)) = &p.l4 {
        if (i.typ == 135 || i.typ == 136) && ip.src == st.addrs[1 - to] {
            st.learned[to] = Some(w.now);
        }
    }
    if let Some(e) = &p.eth {
        if e.dst != st.macs[to] && e.dst[0] & 1 == 0 {
            return Ok(None);
        }
        // traffic from the neighbour refreshes the entry
        if ip.src == st.addrs[1 - to] && e.src == st.macs[1 - to] && st.learned[to].is_some() && ip.dst == st.addrs[to] {
            st.learned[to] = Some(w.now);
        }
    }
    let to_broadcast = !st.v6 && (ip.dst.is_limited_broadcast() || Some(ip.dst) == st.bcast);
    if ip.dst != st.addrs[to] && !to_broadcast {
        return Ok(None);
    }
    // reference reassembly
    let (l4, src, dst) = if ip.is_fragment() {
        let v = ip.v4.as_ref().unwrap();
        let key = (ip.src, v.ident, ip.proto);
        // must-deliver bookkeeping (conservative mirror of a single reassembly slot)
        let now = w.now;
        if st.completed_rx[to].contains(&key) {
            st.poison_until[to] = now + 61_000_000;
        }
        match st.cur_rx[to] {
            Some(k) if k == key => {}
            Some(k) => {
                // an incomplete datagram occupies the slot until the reassembly timeout (60 s after its first
                // fragment); once that has certainly passed the slot is free again and this datagram owns it
                let timed_out = st.frag_rx[to].get(&k).map(|a| now - a.first_at > 61_000_000).unwrap_or(true);
                if timed_out && now > st.poison_until[to] {
                    st.cur_rx[to] = Some(key);
                    w.stats.inc("frag.rx-slot-reused-after-timeout");
                } else {
                    st.poison_until[to] = now + 61_000_000;
                }
            }
            None => st.cur_rx[to] = Some(key),
        }
        let acc = st.frag_rx[to].entry(key).or_insert_with(|| RxAcc { ranges: vec![], bytes: vec![], total: None, first_at: now, max_ranges: 0, src: ip.src, dst: ip.dst, proto: ip.proto, copies: BTreeMap::new(), registered: false });
        if now - acc.first_at > 59_000_000 {
            // (a real reassembler may have timed out) - no must-deliver claims for a while
            st.poison_until[to] = now + 61_000_000;
        }
        let (a, b) = (v.frag_off, v.frag_off + ip.payload.len());
        *acc.copies.entry((a, b)).or_insert(0) += 1;
        if acc.registered {
            // a further copy of a fragment of a datagram that was already complete once
            return Ok(None);
        }
        if acc.bytes.len() < b {
            acc.bytes.resize(b, 0);
        }
        acc.bytes[a..b].copy_from_slice(&ip.payload);
        if !v.mf {
            acc.total = Some(b);
        }
        acc.ranges.push((a, b));
        acc.ranges.sort();
        let mut merged: Vec<(usize, usize)> = vec![];
        for (x, y) in acc.ranges.drain(..) {
            if let Some(l) = merged.last_mut() {
                if x <= l.1 {
                    l.1 = l.1.max(y);
                    continue;
                }
            }
            merged.push((x, y));
        }
        acc.ranges = merged;
        acc.max_ranges = acc.max_ranges.max(acc.ranges.len());
        w.stats.inc("frag.rx-fragments");
        let complete = acc.total.is_some() && acc.ranges.len() == 1 && acc.ranges[0] == (0, acc.total.unwrap());
        if !complete {
            return Ok(None);
        }
        let acc = st.frag_rx[to].get_mut(&key).unwrap();
        acc.registered = true;
        let acc = RxAcc { ranges: vec![], bytes: acc.bytes.clone(), total: acc.total, first_at: acc.first_at, max_ranges: acc.max_ranges, src: acc.src, dst: acc.dst, proto: acc.proto, copies: BTreeMap::new(), registered: true };
        st.completed_rx[to].push(key);
        st.cur_rx[to] = None;
        w.stats.inc("frag.rx-reference-complete");
        if acc.max_ranges > 3 {
            // a real assembler tracking at most 4 ranges may have lost track of this datagram and
            // keeps its (single) reassembly slot occupied until the reassembly timeout
            st.poison_until[to] = st.poison_until[to].max(now + 61_000_000);
        }
        let fake = Ip { src: acc.src, dst: acc.dst, proto: acc.proto, hop: ip.hop, v4: None, hbh: None, payload: acc.bytes, hdr_len: 20 };
        // (judged as the sender's own frames are: a checksum its device is meant to fill in is not there yet)
        match decode_l4(&fake, &w.views[1 - to].tx_verify) {
            Ok(l4) => (l4, acc.src, acc.dst),
            Err(_) => return Ok(None),
        }
    } else {
        match &p.l4 {
            Some(l4) => (l4.clone(), ip.src, ip.dst),
            None => return Ok(None),
        }
    };
    let was_frag = ip.is_fragment();
    let frag_key = ip.v4.as_ref().map(|v| (ip.src, v.ident, ip.proto));
    let mut tag = None;
    match &l4 {
        L4::Udp(u) => {
            // first matching socket in socket-set order
            let idx = st.socks[to].iter().position(|s| s.kind == Kind::Udp && s.open && s.port == u.dport && (s.bound_addr.is_none() || s.bound_addr == Some(dst) || to_broadcast));
            if let Some(i) = idx {
                if was_frag {
                    st.socks[to][i].frag_arrivals.push((Arrival { payload: u.payload.clone(), src, sport: u.sport, dst }, frag_key.unwrap(), 0));
                } else {
                    st.socks[to][i].arrivals.push(Arrival { payload: u.payload.clone(), src, sport: u.sport, dst });
                    tag = Some((i, st.socks[to][i].arrivals.len() - 1));
                }
                w.stats.inc("dgram.arrived");
                // must-deliver clause
                let s = &st.socks[to][i];
                let so = w.nodes[to].sockets.get::<udp::Socket>(s.h);
                let empty = so.recv_queue() == 0 && !so.can_recv();
                let ok_frag = !was_frag || (w.now > st.poison_until[to]);
                if alone && empty && u.payload.len() <= s.rx_bytes && ok_frag {
                    st.expect = Some((to, i, u.payload.len(), s.arrivals.len() + s.frag_arrivals.len()));
                }
            }
        }
        L4::Icmp4(ic) | L4::Icmp6(ic) => {
            let is_reply = (ic.typ == 0 && matches!(l4, L4::Icmp4(_))) || (ic.typ == 129 && matches!(l4, L4::Icmp6(_)));
            if is_reply {
                let ident = ((ic.rest[0] as u16) << 8) | ic.rest[1] as u16;
                if let Some(i) = sock_by_port(st, to, Kind::Icmp, ident) {
                    let seq = ((ic.rest[2] as u16) << 8) | ic.rest[3] as u16;
                    if was_frag {
                        st.socks[to][i].frag_arrivals.push((Arrival { payload: ic.body.clone(), src, sport: seq, dst }, frag_key.unwrap(), 0));
                    } else {
                        st.socks[to][i].arrivals.push(Arrival { payload: ic.body.clone(), src, sport: seq, dst });
                        tag = Some((i, st.socks[to][i].arrivals.len() - 1));
                    }
                    w.stats.inc("dgram.arrived");
                }
            }
        }
        _ => {}
    }
    Ok(tag)
}

fn c08c_check(w: &mut World, st: &mut St, to: usize, frame: Vec<u8>, _tape: &mut Tape, zero6: bool) -> Result<(), Violation> {
    let snap = |w: &World, st: &St| -> String {
        let mut s = String::new();
        for so in &st.socks[to] {
            match so.kind {
                Kind::Udp => s += &format!("{:?}", w.nodes[to].sockets.get::<udp::Socket>(so.h)),
                Kind::Icmp => s += &format!("{:?}", w.nodes[to].sockets.get::<icmp::Socket>(so.h)),
            }
        }
        s
    };
    let before = snap(w, st);
    w.nodes[to].dev.tx_budget = None;
    w.nodes[to].dev.rx.push_back(frame.clone());
    let info = w.nodes[to].poll_ingress_single(w.now)?;
    let after = snap(w, st);
    w.stats.inc("c08.corrupt-alone-checked");
    if !info.tx.is_empty() {
        let reply = decode_frame(st.medium, &info.tx[0], &Verify::none()).map(|p| p.summary()).unwrap_or_default();
        if zero6 {
            return Err(viol("C08", "corrupt-equals-loss", "C08.corrupt/udp-over-ipv6-with-zero-checksum-field-accepted", format!("a UDP/IPv6 frame with a zero checksum field was answered with: {} ; frame={}", reply, crate::tap::hex(&frame))));
        }
        return Err(viol("C08", "corrupt-equals-loss", "C08.corrupt/reply-emitted", format!("a frame failing its checksum was answered with: {} ; damaged frame={}", reply, crate::tap::hex(&frame))));
    }
    if before != after {
        let (a, b) = crate::scen_tcp::first_diff(&before, &after);
        let sig = if zero6 { "C08.corrupt/udp-over-ipv6-with-zero-checksum-field-accepted" } else { "C08.corrupt/socket-changed" };
        return Err(viol("C08", "corrupt-equals-loss", sig, format!("a frame failing its checksum changed socket state: ..{}.. => ..{}.. ; damaged frame={}", a, b, crate::tap::hex(&frame))));
    }
    Ok(())
}

fn service(w: &mut World, st: &mut St, n: usize, tape: &mut Tape) -> Result<(), Violation> {
    let mut rounds = 0;
    loop {
        rounds += 1;
        w.nodes[n].dev.tx_budget = if st.backpressure && w.faults_active() { Some(tape.draw(4) as usize) } else { None };
        let (info, frames) = w.poll_node(n, tape)?;
        for _ in 0..info.rx_consumed {
            st.pending[n].pop_front();
        }
        st.last_refused[n] = info.refused > 0;
        if info.refused > 0 {
            w.stats.add("fault.tx-ring-refused", info.refused);
        }
        // must-deliver expectation (C09 / C12)
        if let Some((en, ei, size, aidx)) = st.expect.take() {
            if en == n && w.nodes[n].dev.rx.is_empty() && info.refused == 0 {
                let s = &st.socks[n][ei];
                let so = w.nodes[n].sockets.get::<udp::Socket>(s.h);
                let got = so.can_recv() && so.recv_queue() == size;
                if !got {
                    let frag = size + 28 > st.mtu_ip[1 - n];
                    let prop = if frag { "C12" } else { "C09" };
                    if w.props.has(prop) {
                        return Err(viol(
                            if frag { "C12" } else { "C09" },
                            "must-deliver",
                            format!("{}.must-deliver/{}", prop, if frag { "reassembled-datagram-dropped" } else { "datagram-into-empty-buffer-dropped" }),
                            format!("a valid datagram of {} bytes arrived for socket {}{} whose receive buffer was empty (capacity {} bytes, {} slots) but it was not delivered (arrival #{}) [now={} poison_until={:?}]", size, w.nodes[n].name, ei, s.rx_bytes, s.rx_meta, aidx, w.now, st.poison_until),
                        ));
                    }
                }
                w.stats.inc("dgram.must-deliver-checked");
            }
        }
        for f in &frames {
            tx_oracles(w, st, n, f)?;
        }
        // C13 no-spin
        if w.props.has("C13") && info.rx_consumed == 0 && frames.is_empty() && info.refused == 0 && w.nodes[n].dev.rx.is_empty() {
            if let Some(d) = w.nodes[n].poll_at(w.now)? {
                if d <= w.now {
                    let (t0, c) = st.spin[n];
                    st.spin[n] = if t0 == w.now { (t0, c + 1) } else { (w.now, 1) };
                    if st.spin[n].1 > 3 {
                        return Err(viol("C13", "no-spin", "C13.spin/dgram", format!("after {} consecutive polls at t={}us that moved no frame, poll_at still returns {}us", st.spin[n].1, w.now, d)));
                    }
                }
            }
        }
        let did = app_step(w, st, n, tape)?;
        if did {
            st.touch[n] += 1;
        }
        if !did || rounds >= 20 {
            break;
        }
        // the usual event loop shape: poll, socket calls, then straight to poll_at to decide how long to sleep
        if tape.chance(1, 5) {
            w.stats.inc("sched.sleep-decided-right-after-socket-calls");
            break;
        }
    }
    // frames the device could not hand over (its transmit ring was full) do not wait for the next unrelated event:
    // a driver polls again as soon as there is room
    if !w.nodes[n].dev.rx.is_empty() {
        w.schedule(w.now + 1_000, Ev::App { node: n });
    }
    let d = w.refresh_deadline(n)?;
    if let Some(at) = d {
        if at <= w.now {
            let (t0, c) = st.spin[n];
            if t0 != w.now {
                st.spin[n] = (w.now, 0);
            } else if c > 8 {
                w.gens[n] += 1;
                let g = w.gens[n];
                w.stats.inc("sched.spin-break");
                w.schedule(w.now + 1_000, Ev::Deadline { node: n, generation: g });
            } else {
                st.spin[n].1 += 1;
            }
        }
    }
    if w.props.has("C13") && !st.last_refused[n] && w.nodes[n].dev.rx.is_empty() && tape.chance(1, 6) {
        let at = match d {
            Some(d) if d > w.now + 1 => Some(w.now + 1 + tape.draw((d - w.now - 1) as u64) as i64),
            Some(_) => None,
            None => Some(w.now + 1 + tape.draw(5_000_000) as i64),
        };
        if let Some(at) = at {
            st.probes[n] = Some((st.touch[n], w.gens[n]));
            w.schedule(at, Ev::Misc(100 + n as u32));
        }
    } else {
        tape.draw(1);
    }
    Ok(())
}

fn probe_fire(w: &mut World, st: &mut St, n: usize, tape: &mut Tape) -> Result<(), Violation> {
    let Some((touch, generation)) = st.probes[n].take() else { return Ok(()) };
    if touch != st.touch[n] || generation != w.gens[n] || !w.nodes[n].dev.rx.is_empty() {
        return Ok(());
    }
    w.stats.inc("c13.early-polls");
    w.nodes[n].dev.tx_budget = None;
    let (_info, frames) = w.poll_node(n, tape)?;
    for f in &frames {
        let exempt = match &f.pkt {
            Some(p) => matches!(&p.l4, Some(L4::Igmp(_))) || matches!(&p.l4, Some(L4::Icmp6(i)) if i.typ == 143),
            None => false,
        };
        if !exempt {
            return Err(viol("C13", "sufficiency", "C13.early-tx/dgram", format!("poll before the instant returned by poll_at transmitted: {}", f.pkt.as_ref().map(|p| p.summary()).unwrap_or_default())));
        }
        tx_oracles(w, st, n, f)?;
    }
    w.refresh_deadline(n)?;
    Ok(())
}

fn expected_payload(key: u64, seq: u64, len: usize) -> Vec<u8> {
    (0..len as u64).map(|j| stream_byte(key, seq * 65536 + j)).collect()
}

/// Everything node n puts on the wire: C09 transmit FIFO, C12 fragment discipline, C16 next hop.
fn tx_oracles(w: &mut World, st: &mut St, n: usize, f: &TxFrame) -> Result<(), Violation> {
    let Some(p) = &f.pkt else { return Ok(()) };
    // ---- C16: solicitation rate and link-layer destination
    let is_solicit = p.arp.as_ref().map(|a| a.op == 1).unwrap_or(false) || matches!(&p.l4, Some(L4::Icmp6(i)) if i.typ == 135);
    if is_solicit {
        w.stats.inc("c16.solicitations");
        if let Some(t) = st.last_solicit[n] {
            if w.now - t < 1_000_000 && w.props.has("C16") {
                // a solicitation sent in reply to nothing within a second of the previous one
                return Err(viol("C16", "rate-limit", "C16.rate/solicitations-closer-than-1s", format!("node {} emitted two ARP requests / neighbour solicitations {} us apart: {}", w.nodes[n].name, w.now - t, p.summary())));
            }
        }
        st.last_solicit[n] = Some(w.now);
    }
    let Some(ip) = &p.ip else { return Ok(()) };
    if let Some(e) = &p.eth {
        if (ip.dst.is_limited_broadcast() || Some(ip.dst) == st.bcast) && e.dst != [0xff; 6] && w.props.has("C16") {
            return Err(viol("C16", "next-hop", "C16.l2dst/broadcast-datagram-not-to-the-broadcast-hardware-address", format!("IP broadcast {} sent to hardware address {:02x?}", ip.dst, e.dst)));
        }
        if !ip.dst.is_multicast() && !ip.dst.is_limited_broadcast() && w.props.has("C16") {
            let is_nd = matches!(&p.l4, Some(L4::Icmp6(i)) if i.typ == 135 || i.typ == 136);
            if ip.dst == st.addrs[1 - n] {
                let ok_addr = e.dst == st.macs[1 - n];
                let slack = if st.p.exact { 1 } else { 30_000 };
                let fresh = st.backpressure || st.learned[n].map(|t| w.now - t < 60_000_000 + slack).unwrap_or(false);
                if !ok_addr {
                    return Err(viol("C16", "next-hop", "C16.l2dst/wrong-hardware-address", format!("unicast IP frame to {} sent to hardware address {:02x?}, the neighbour's is {:02x?}", ip.dst, e.dst, st.macs[1 - n])));
                }
                if !fresh && !is_nd {
                    let why = if st.learned[n].is_none() { "never-learned" } else { "stale-over-60s" };
                    return Err(viol("C16", "next-hop", format!("C16.l2dst/{}", why), format!("unicast IP frame to {} sent at t={}us although the neighbour's address was last confirmed at {:?}: {}", ip.dst, w.now, st.learned[n], p.summary())));
                }
            }
        }
    }
    if ip.src != st.addrs[n] {
        return Ok(());
    }
    // ---- match against the socket model. A fragmented datagram is matched (and leaves the queue)
    // when its first fragment appears; its content is compared when the last one has been emitted.
    if ip.is_fragment() {
        let v = ip.v4.as_ref().unwrap();
        w.stats.inc("frag.tx-fragments");
        if v.frag_off == 0 {
            w.stats.inc("dgram.fragmented-tx");
            if let Some(old) = st.incomplete_tx[n] {
                if old != v.ident {
                    w.stats.inc("frag.tx-new-datagram-while-previous-incomplete");
                    if w.props.has("C12") {
                        let lost = st.frag_tx[n].get(&old).and_then(|a| a.dg.as_ref()).map(|(si, d)| format!("socket {}{} datagram #{} ({} bytes)", w.nodes[n].name, si, d.seq, d.payload.len())).unwrap_or_else(|| "an ingress-triggered reply".into());
                        return Err(viol("C12", "tx-complete", "C12.tx-incomplete/second-oversized-while-fragmenter-busy", format!("a new fragmented datagram (ident {}) was started while ident {} had only been transmitted up to offset {}: {} is lost inside the stack", v.ident, old, st.frag_tx[n].get(&old).map(|a| a.next_off).unwrap_or(0), lost)));
                    }
                }
            }
            // identify the socket from the transport header in the first fragment
            let pl = &ip.payload;
            let ident: Option<(Kind, u16, u16, usize)> = if ip.proto == P_UDP && pl.len() >= 8 {
                Some((Kind::Udp, ((pl[0] as u16) << 8) | pl[1] as u16, ((pl[2] as u16) << 8) | pl[3] as u16, (((pl[4] as usize) << 8) | pl[5] as usize).saturating_sub(8)))
            } else if (ip.proto == P_ICMP && pl.len() >= 8 && pl[0] == 8) || (ip.proto == P_ICMP6 && pl.len() >= 8 && pl[0] == 128) {
                Some((Kind::Icmp, ((pl[4] as u16) << 8) | pl[5] as u16, ((pl[6] as u16) << 8) | pl[7] as u16, usize::MAX))
            } else {
                None
            };
            let mut dg = None;
            if let Some((kind, port, dport, plen)) = ident {
                if let Some(si) = sock_by_port(st, n, kind, port) {
                    let prefix = &pl[8..];
                    let d = match_head(w, st, n, si, &ip.dst, dport, prefix, plen, ip.hop, &ip.src, p, true)?;
                    dg = d.map(|d| (si, d));
                }
            }
            st.frag_tx[n].insert(v.ident, FragAcc { dg, proto: ip.proto, src: ip.src, dst: ip.dst, next_off: 0, bytes: vec![], hop: ip.hop });
            st.incomplete_tx[n] = Some(v.ident);
        }
        let Some(acc) = st.frag_tx[n].get_mut(&v.ident) else {
            if w.props.has("C12") {
                return Err(viol("C12", "tx-fragments", "C12.tx/fragment-without-first", format!("fragment at offset {} of ident {} emitted without a first fragment", v.frag_off, v.ident)));
            }
            return Ok(());
        };
        if w.props.has("C12") {
            if v.frag_off != acc.next_off {
                return Err(viol("C12", "tx-fragments", "C12.tx/offset-discontinuity", format!("fragment of ident {} at offset {} but {} bytes were emitted so far: {}", v.ident, v.frag_off, acc.next_off, p.summary())));
            }
            if acc.proto != ip.proto || acc.src != ip.src || acc.dst != ip.dst || acc.hop != ip.hop {
                return Err(viol("C12", "tx-fragments", "C12.tx/header-changed-between-fragments", format!("fragments of ident {} disagree on addresses/protocol/ttl", v.ident)));
            }
            if ip.hdr_len + ip.payload.len() > st.mtu_ip[n] {
                return Err(viol("C12", "tx-fragments", "C12.tx/fragment-exceeds-mtu", format!("fragment of {} bytes > MTU {}", ip.hdr_len + ip.payload.len(), st.mtu_ip[n])));
            }
        }
        acc.bytes.extend_from_slice(&ip.payload);
        acc.next_off += ip.payload.len();
        if v.mf {
            return Ok(());
        }
        let acc = st.frag_tx[n].remove(&v.ident).unwrap();
        if st.incomplete_tx[n] == Some(v.ident) {
            st.incomplete_tx[n] = None;
        }
        w.stats.inc("frag.tx-datagrams-completed");
        if !w.props.has("C12") && !w.props.has("C08") && !w.props.has("C10") {
            return Ok(());
        }
        let fake = Ip { src: acc.src, dst: acc.dst, proto: acc.proto, hop: acc.hop, v4: None, hbh: None, payload: acc.bytes, hdr_len: 20 };
        let l4 = match decode_l4(&fake, &w.views[n].tx_verify) {
            Ok(l4) => l4,
            Err(e) => {
                // the transport checksum of a fragmented datagram can only be judged after reassembly
                if e.kind == ErrKind::Checksum && w.props.has("C08") {
                    return Err(viol("C08", "emitted-valid", format!("C08.emit/reassembled:{}", e.layer), format!("the fragments emitted for ident {} reassemble into a datagram that fails the independent checksum: {} {}", v.ident, e.layer, e.msg)));
                }
                if w.props.has("C10") {
                    return Err(viol("C10", "wellformed", format!("C10.fragments/reassembled-invalid:{}", e.layer), format!("the fragments emitted for ident {} do not reassemble into a valid datagram: {} {}", v.ident, e.layer, e.msg)));
                }
                if !w.props.has("C12") {
                    return Ok(());
                }
                return Err(viol("C12", "tx-fragments", "C12.tx/reassembled-invalid", format!("the fragments emitted for ident {} do not reassemble into a valid datagram: {} {}", v.ident, e.layer, e.msg)));
            }
        };
        if let Some((si, d)) = acc.dg {
            let payload = match &l4 {
                L4::Udp(u) => u.payload.clone(),
                L4::Icmp4(i) | L4::Icmp6(i) => i.body.clone(),
                _ => vec![],
            };
            if payload != d.payload && w.props.has("C12") {
                return Err(viol("C12", "tx-fragments", "C12.tx/reassembled-differs", format!("socket {}{} datagram #{}: the fragments on the wire reassemble into {} bytes that differ from the {} bytes the socket accepted", w.nodes[n].name, si, d.seq, payload.len(), d.payload.len())));
            }
        }
        return Ok(());
    }
    let Some(l4) = &p.l4 else { return Ok(()) };
    let (kind, port, payload, dport) = match l4 {
        L4::Udp(u) => (Kind::Udp, u.sport, u.payload.clone(), u.dport),
        L4::Icmp4(i) if i.typ == 8 => (Kind::Icmp, ((i.rest[0] as u16) << 8) | i.rest[1] as u16, i.body.clone(), ((i.rest[2] as u16) << 8) | i.rest[3] as u16),
        L4::Icmp6(i) if i.typ == 128 => (Kind::Icmp, ((i.rest[0] as u16) << 8) | i.rest[1] as u16, i.body.clone(), ((i.rest[2] as u16) << 8) | i.rest[3] as u16),
        _ => return Ok(()),
    };
    let Some(si) = sock_by_port(st, n, kind, port) else { return Ok(()) };
    let plen = payload.len();
    match_head(w, st, n, si, &ip.dst, dport, &payload, plen, ip.hop, &ip.src, p, false)?;
    Ok(())
}

/// The datagram that starts on the wire now must be the head of the socket's model queue
/// (entries that can never be sent may have been dropped silently before it).
#[allow(clippy::too_many_arguments)]
fn match_head(w: &mut World, st: &mut St, n: usize, si: usize, dst: &IpAddr, dport: u16, prefix: &[u8], plen: usize, hop: u8, src: &IpAddr, p: &Packet, first_fragment: bool) -> Result<Option<Dg>, Violation> {
    let check = w.props.has("C09") || w.props.has("C12");
    let name = w.nodes[n].name;
    let mtu = st.mtu_ip[n];
    let s = &mut st.socks[n][si];
    let same = |h: &Dg| -> bool { (plen == usize::MAX || h.payload.len() == plen) && h.payload.len() >= prefix.len() && h.payload[..prefix.len()] == *prefix && h.dst == *dst && h.dport == dport };
    loop {
        match s.txq.front() {
            None => {
                if !check {
                    return Ok(None);
                }
                return Err(viol("C09", "tx-fifo", "C09.tx/unexpected-datagram", format!("socket {}{} transmitted a datagram ({} bytes) that is not (any longer) in its queue: duplicate transmission or invention ; {}", name, si, plen, p.summary())));
            }
            Some(h) => {
                if same(h) {
                    if check {
                        if h.hop != hop {
                            return Err(viol("C09", "tx-fifo", "C09.tx/hop-limit", format!("datagram sent with hop limit {} but the socket's is {}", hop, h.hop)));
                        }
                        if let Some(a) = h.src {
                            if a != *src {
                                return Err(viol("C09", "tx-fifo", "C09.tx/source-address", format!("datagram sent from {} but the socket is bound to {}", src, a)));
                            }
                        }
                        let needs_frag = h.payload.len() + 28 > mtu;
                        if needs_frag != first_fragment && !st.v6 {
                            // (ICMP header is 8 bytes like UDP's; IPv4 header 20)
                        }
                    }
                    w.stats.inc("dgram.transmitted");
                    return Ok(s.txq.pop_front());
                }
                if !h.fits || !h.resolvable {
                    s.txq.pop_front();
                    w.stats.inc("dgram.unfit-dropped");
                    continue;
                }
                if !check {
                    s.txq.pop_front();
                    continue;
                }
                let later = s.txq.iter().any(|d| same(d));
                let which = if later { "out-of-order-or-lost-predecessor" } else { "modified-or-duplicate" };
                let frag = h.payload.len() + 28 > mtu;
                if frag && later && w.props.has("C12") {
                    return Err(viol("C12", "tx-complete", "C12.tx-incomplete/oversized-datagram-lost-in-stack", format!("socket {}{}: datagram #{} ({} bytes, needs fragmentation) was accepted by send but a later datagram was transmitted first; it never appeared on the wire", name, si, h.seq, h.payload.len())));
                }
                return Err(viol("C09", "tx-fifo", format!("C09.tx/{}", which), format!("socket {}{} transmitted a datagram ({} bytes to port {}) that is not the head of its queue (head: #{} {} bytes to port {}) ; {}", name, si, plen, dport, h.seq, h.payload.len(), h.dport, p.summary())));
            }
        }
    }
}

fn settled_check(w: &mut World, st: &mut St) -> Result<(), Violation> {
    for n in 0..2 {
        if st.backpressure && w.link.fault_end == 0 {
            continue;
        }
        for (si, s) in st.socks[n].iter().enumerate() {
            if let Some(d) = s.txq.front() {
                if d.fits && d.resolvable && s.open && w.props.has("C09") {
                    return Err(viol("C09", "tx-exactly-once", "C09.tx/never-transmitted", format!("socket {}{}: datagram #{} of {} bytes to {}:{} is still at the head of the queue 300 s after the last fault although its destination is resolvable and it fits", w.nodes[n].name, si, d.seq, d.payload.len(), d.dst, d.dport)));
                }
            }
        }
    }
    Ok(())
}

fn quiescence_check(w: &mut World, st: &mut St) -> Result<(), Violation> {
    // nothing in flight, no deadline anywhere: every fitting, resolvable datagram must be out
    if w.now < w.link.fault_end {
        return Ok(());
    }
    for n in 0..2 {
        if let Some(id) = st.incomplete_tx[n] {
            if w.props.has("C12") {
                let off = st.frag_tx[n].get(&id).map(|a| a.next_off).unwrap_or(0);
                return Err(viol("C12", "tx-complete", "C12.tx-incomplete/never-fully-transmitted", format!("node {}: the fragmented datagram with ident {} was only transmitted up to offset {} although the run reached quiescence", w.nodes[n].name, id, off)));
            }
        }
    }
    for n in 0..2 {
        for (si, s) in st.socks[n].iter().enumerate() {
            for d in &s.txq {
                if d.fits && d.resolvable && s.open {
                    let frag = d.payload.len() + 28 > st.mtu_ip[n] && !st.v6;
                    if frag && w.props.has("C12") {
                        return Err(viol("C12", "tx-complete", "C12.tx-incomplete/never-fully-transmitted", format!("socket {}{}: datagram #{} of {} bytes (fragmented) accepted by send was never transmitted completely although the run reached quiescence", w.nodes[n].name, si, d.seq, d.payload.len())));
                    }
                    if !frag && w.props.has("C09") {
                        return Err(viol("C09", "tx-exactly-once", "C09.tx/never-transmitted", format!("socket {}{}: datagram #{} of {} bytes to {}:{} accepted by send was never transmitted although the run reached quiescence (nothing in flight, no deadline)", w.nodes[n].name, si, d.seq, d.payload.len(), d.dst, d.dport)));
                    }
                }
            }
        }
    }
    Ok(())
}

fn app_step(w: &mut World, st: &mut St, n: usize, tape: &mut Tape) -> Result<bool, Violation> {
    if st.ops_left == 0 {
        // drain what is left so that the receive oracles see everything
        let mut did = false;
        for si in 0..st.socks[n].len() {
            for _ in 0..16 {
                if !do_recv(w, st, n, si, tape, 0)? {
                    break;
                }
                did = true;
            }
        }
        return Ok(did);
    }
    let mut did = false;
    let nops = tape.draw(3);
    for _ in 0..nops {
        if st.ops_left == 0 {
            break;
        }
        st.ops_left -= 1;
        let si = tape.draw(st.socks[n].len() as u64) as usize;
        let op = tape.draw(10);
        match op {
            0..=4 => did |= do_send(w, st, n, si, tape)?,
            5..=7 => did |= do_recv(w, st, n, si, tape, 0)?,
            8 => {
                let mode = 1 + tape.draw(5);
                did |= do_recv(w, st, n, si, tape, mode as u8)?
            }
            _ => {
                // close + rebind (UDP only)
                if st.socks[n][si].kind == Kind::Udp && tape.chance(1, 4) {
                    let s = &mut st.socks[n][si];
                    let so = w.nodes[n].sockets.get_mut::<udp::Socket>(s.h);
                    guard("udp::close", || so.close())?;
                    let ep = IpListenEndpoint { addr: s.bound_addr.map(|a| to_smol(&a)), port: s.port };
                    let r = guard("udp::bind", || so.bind(ep))?;
                    if r.is_err() {
                        return Err(viol("C09", "api", "C09.api/rebind-failed", "bind after close failed".to_string()));
                    }
                    s.txq.clear();
                    // datagrams whose frames are still queued in the device will be ingested after
                    // the rebind and may legitimately be delivered
                    let first_pending = st.pending[n].iter().flatten().filter(|(i, _)| *i == si).map(|(_, a)| *a).min();
                    s.arr_ptr = first_pending.unwrap_or(s.arrivals.len());
                    w.stats.inc("dgram.close-rebind");
                    did = true;
                } else if tape.chance(1, 5) {
                    // the application goes through its address list without changing it (what a configuration
                    // reload does): the neighbour cache is flushed, nothing that is queued or half sent may suffer
                    let iface = &mut w.nodes[n].iface;
                    guard("Interface::update_ip_addrs", || iface.update_ip_addrs(|_| {}))?;
                    w.stats.inc("dgram.addresses-reapplied");
                    did = true;
                }
            }
        }
    }
    if st.ops_left > 0 {
        // the application comes back by itself
        // (now and then a pause longer than the 60 s reassembly / neighbour-cache lifetimes)
        // (biased to land right after a reassembly was left incomplete: the slot has to time out cleanly)
        let incomplete = st.poison_until[0].max(st.poison_until[1]) > w.now || st.cur_rx[0].is_some() || st.cur_rx[1].is_some();
        let long = if incomplete { tape.draw(5) == 4 } else { tape.draw(24) == 23 };
        let d = if long { 62_000_000 } else { *tape.pick(&[1_000i64, 100, 20_000, 300_000, 1_200_000]) };
        w.schedule(w.now + d, Ev::App { node: n });
    }
    Ok(did)
}

fn do_send(w: &mut World, st: &mut St, n: usize, si: usize, tape: &mut Tape) -> Result<bool, Violation> {
    let peer = 1 - n;
    let v6 = st.v6;
    let hdr = if v6 { 48 } else { 28 };
    let mtu = st.mtu_ip[n];
    let s = &mut st.socks[n][si];
    let cap = s.tx_bytes;
    let size = if st.p.frag_heavy {
        match tape.draw(6) {
            0 => tape.range(0, 64) as usize,
            1 => (mtu.saturating_sub(hdr) + tape.draw(10) as usize).saturating_sub(4),
            2 => 1472 - tape.draw(8) as usize,
            3 => 1472 + 1 + tape.draw(40) as usize,
            _ => tape.range(0, cap.min(1600) as u64) as usize,
        }
    } else {
        match tape.draw(6) {
            0 => 0,
            1 => cap,
            2 => cap + 1,
            3 => tape.range(0, 64) as usize,
            _ => tape.range(0, cap as u64) as usize,
        }
    };
    let dst_kind = tape.draw(12);
    let (dst, resolvable) = match dst_kind {
        11 => {
            // off-link without a route: can never be sent
            let a = if v6 {
                let mut b = [0u8; 16];
                b[0] = 0x20;
                b[1] = 0x01;
                b[15] = 9;
                IpAddr::V6(b)
            } else {
                IpAddr::V4([192, 0, 2, 9])
            };
            (a, false)
        }
        // UDP to the limited or the subnet-directed broadcast address: no neighbour needed, any socket on the port
        // takes it (IPv4 only; a /31 has no directed broadcast)
        10 if !v6 && s.kind == Kind::Udp => (IpAddr::V4([255, 255, 255, 255]), true),
        9 if !v6 && s.kind == Kind::Udp && st.bcast.is_some() => (st.bcast.unwrap(), true),
        _ => (st.addrs[peer], true),
    };
    if dst != st.addrs[peer] && resolvable {
        w.stats.inc("dgram.send-to-broadcast");
    }
    let seq = s.next_seq;
    match s.kind {
        Kind::Udp => {
            let dport = match tape.draw(6) {
                0 | 1 | 2 => 7000 + peer as u16,
                3 | 4 => 7100 + peer as u16,
                _ => 9999, // nobody listens: the peer answers with port unreachable
            };
            let mut payload = expected_payload(s.key, seq, size);
            // now and then the last two payload octets are chosen so that the UDP checksum of the datagram computes to
            // zero - which has to go on the wire as 0xffff (zero means "no checksum" over IPv4 and is illegal over IPv6)
            if size >= 2 && size % 2 == 0 && tape.draw(12) == 0 {
                let k = payload.len();
                payload[k - 2] = 0;
                payload[k - 1] = 0;
                let mut v = Vec::with_capacity(8 + k);
                v.extend_from_slice(&s.port.to_be_bytes());
                v.extend_from_slice(&dport.to_be_bytes());
                v.extend_from_slice(&((8 + k) as u16).to_be_bytes());
                v.extend_from_slice(&[0, 0]);
                v.extend_from_slice(&payload);
                let c = inet_csum(&v, pseudo(&st.addrs[n], &dst, P_UDP, v.len()));
                payload[k - 2] = (c >> 8) as u8;
                payload[k - 1] = c as u8;
                w.stats.inc("dgram.send-with-checksum-computing-to-zero");
            }
            let so = w.nodes[n].sockets.get_mut::<udp::Socket>(s.h);
            let ep = IpEndpoint { addr: to_smol(&dst), port: dport };
            let q_before = so.send_queue();
            let how = tape.draw(4);
            // send_with may be given room for more than the closure ends up writing
            let slack = if how == 3 { 1 + tape.draw(64) as usize } else { 0 };
            let r: Result<(), udp::SendError> = guard("udp::send", || match how {
                0 => so.send_slice(&payload, ep),
                1 => so.send(size, ep).map(|b| b.copy_from_slice(&payload)),
                _ => so.send_with(size + slack, ep, |b| {
                    b[..size].copy_from_slice(&payload);
                    size
                }).map(|_| ()),
            })?;
            let q_after = so.send_queue();
            match r {
                Ok(()) => {
                    s.next_seq += 1;
                    let _ = (q_before, q_after);
                    let ip_len = size + hdr;
                    let fits = ip_len <= mtu || (!v6 && ip_len <= st.frag_buf);
                    s.txq.push_back(Dg { payload, src: s.bound_addr, sport: s.port, dst, dport, hop: s.hop.unwrap_or(64), fits, resolvable, seq });
                    w.stats.inc("dgram.send-accepted");
                    if ip_len > mtu {
                        w.stats.inc("dgram.send-oversized");
                    }
                    Ok(true)
                }
                Err(_) => {
                    let _ = (q_before, q_after);
                    w.stats.inc("dgram.send-refused");
                    if size > cap {
                        w.stats.inc("dgram.send-refused-too-big");
                    }
                    Ok(false)
                }
            }
        }
        Kind::Icmp => {
            let size = size.min(cap.saturating_sub(8));
            let data = expected_payload(s.key, seq, size);
            let ident = s.port;
            let seqno = (seq & 0xffff) as u16;
            let src = st.addrs[n];
            let rest = [(ident >> 8) as u8, ident as u8, (seqno >> 8) as u8, seqno as u8];
            let mut msg = if v6 { enc_icmp(true, &src, &dst, 128, 0, rest, &data) } else { enc_icmp(false, &src, &dst, 8, 0, rest, &data) };
            // the checksum field of a message handed to an ICMP socket is the stack's to fill in: applications leave
            // it unset (or compute it for another source address)
            match tape.draw(4) {
                0 => {
                    msg[2] = 0;
                    msg[3] = 0;
                    w.stats.inc("dgram.icmp-sent-with-unset-checksum");
                }
                1 => {
                    msg[2] ^= 0x5a;
                    msg[3] = msg[3].wrapping_add(1);
                    w.stats.inc("dgram.icmp-sent-with-unset-checksum");
                }
                _ => {}
            }
            let so = w.nodes[n].sockets.get_mut::<icmp::Socket>(s.h);
            let how = tape.draw(3);
            let slack = if how == 2 { 1 + tape.draw(32) as usize } else { 0 };
            let r = guard("icmp::send", || match how {
                0 => so.send_slice(&msg, to_smol(&dst)),
                _ => so.send_with(msg.len() + slack, to_smol(&dst), |b| {
                    b[..msg.len()].copy_from_slice(&msg);
                    msg.len()
                }).map(|_| ()),
            })?;
            match r {
                Ok(()) => {
                    s.next_seq += 1;
                    let ip_len = msg.len() + if v6 { 40 } else { 20 };
                    let fits = ip_len <= mtu || (!v6 && ip_len <= st.frag_buf);
                    s.txq.push_back(Dg { payload: data, src: None, sport: ident, dst, dport: seqno, hop: s.hop.unwrap_or(64), fits, resolvable, seq });
                    w.stats.inc("dgram.send-accepted");
                    Ok(true)
                }
                Err(_) => {
                    w.stats.inc("dgram.send-refused");
                    Ok(false)
                }
            }
        }
    }
}

/// mode 0: recv; 1: recv_slice into a too-small buffer; 2: peek then recv; 3: peek_slice small;
/// 4: peek_slice into a roomy buffer, then recv; 5: recv_slice into a roomy buffer
fn do_recv(w: &mut World, st: &mut St, n: usize, si: usize, _tape: &mut Tape, mode: u8) -> Result<bool, Violation> {
    let name = w.nodes[n].name;
    let s = &mut st.socks[n][si];
    let got: Option<Arrival> = match s.kind {
        Kind::Udp => {
            let so = w.nodes[n].sockets.get_mut::<udp::Socket>(s.h);
            // learn the head through peek (itself under test: must agree with the following recv)
            let head: Option<(Vec<u8>, udp::UdpMetadata)> = guard("udp::peek", || so.peek().ok().map(|(b, m)| (b.to_vec(), *m)))?;
            match mode {
                1 | 3 => {
                    if let Some((hb, _)) = &head {
                        if hb.is_empty() {
                            None
                        } else {
                            let mut small = vec![0u8; hb.len() - 1];
                            let q0 = so.recv_queue();
                            if mode == 1 {
                                let r = guard("udp::recv_slice", || so.recv_slice(&mut small).map(|(k, _)| k))?;
                                match r {
                                    Err(udp::RecvError::Truncated) => {}
                                    other => {
                                        return Err(viol("C09", "truncated", "C09.rx/short-buffer-not-truncated", format!("recv_slice into {} bytes for a {} byte datagram returned {:?} instead of Truncated", small.len(), hb.len(), other)));
                                    }
                                }
                                // documented: the datagram is consumed
                                let q1 = so.recv_queue();
                                if q1 + hb.len() != q0 {
                                    return Err(viol("C09", "truncated", "C09.rx/truncated-recv-accounting", format!("Truncated recv_slice: recv_queue {} -> {} for a {} byte head", q0, q1, hb.len())));
                                }
                                w.stats.inc("dgram.truncated-recv");
                                let (hb, hm) = head.unwrap();
                                Some(Arrival { payload: hb, src: crate::mk::from_smol(&hm.endpoint.addr), sport: hm.endpoint.port, dst: hm.local_address.map(|a| crate::mk::from_smol(&a)).unwrap_or(st.addrs[n]) })
                            } else {
                                let r = guard("udp::peek_slice", || so.peek_slice(&mut small).map(|(k, _)| k))?;
                                match r {
                                    Err(udp::RecvError::Truncated) => {}
                                    other => {
                                        return Err(viol("C09", "truncated", "C09.rx/short-buffer-not-truncated", format!("peek_slice into {} bytes for a {} byte datagram returned {:?}", small.len(), hb.len(), other)));
                                    }
                                }
                                if so.recv_queue() != q0 {
                                    return Err(viol("C09", "truncated", "C09.rx/peek-consumed", "peek_slice changed the receive queue".to_string()));
                                }
                                return Ok(false);
                            }
                        }
                    } else {
                        None
                    }
                }
                4 | 5 => {
                    let room = head.as_ref().map(|(hb, _)| hb.len()).unwrap_or(0) + (mode as usize - 4) * 7;
                    let mut buf = vec![0xa5u8; room + 3];
                    let q0 = so.recv_queue();
                    if mode == 4 {
                        let r = guard("udp::peek_slice", || so.peek_slice(&mut buf[..room]).ok().map(|(k, m)| (k, *m)))?;
                        match (&head, &r) {
                            (Some((hb, hm)), Some((k, m))) => {
                                if *k != hb.len() || buf[..*k] != hb[..] || hm.endpoint != m.endpoint || hm.local_address != m.local_address || buf[room..] != [0xa5u8; 3] {
                                    return Err(viol("C09", "rx-fifo", "C09.rx/peek-slice-disagree", format!("peek_slice into {} bytes returned {} bytes that are not the {} byte head datagram peek shows", room, k, hb.len())));
                                }
                            }
                            (None, None) => {}
                            _ => return Err(viol("C09", "rx-fifo", "C09.rx/peek-slice-disagree", "peek and peek_slice disagree on emptiness".to_string())),
                        }
                        if so.recv_queue() != q0 {
                            return Err(viol("C09", "truncated", "C09.rx/peek-consumed", "peek_slice changed the receive queue".to_string()));
                        }
                        w.stats.inc("dgram.peek-slice");
                        return Ok(false);
                    }
                    let r = guard("udp::recv_slice", || so.recv_slice(&mut buf[..room]).ok())?;
                    match (head, r) {
                        (Some((hb, hm)), Some((k, m))) => {
                            if k != hb.len() || buf[..k] != hb[..] || hm.endpoint != m.endpoint || hm.local_address != m.local_address || buf[room..] != [0xa5u8; 3] {
                                return Err(viol("C09", "rx-fifo", "C09.rx/peek-recv-disagree", format!("recv_slice into {} bytes returned {} bytes that are not the {} byte head datagram peek showed", room, k, hb.len())));
                            }
                            w.stats.inc("dgram.recv-slice");
                            Some(Arrival { payload: hb, src: crate::mk::from_smol(&m.endpoint.addr), sport: m.endpoint.port, dst: m.local_address.map(|a| crate::mk::from_smol(&a)).unwrap_or(st.addrs[n]) })
                        }
                        (None, None) => None,
                        _ => return Err(viol("C09", "rx-fifo", "C09.rx/peek-recv-disagree", "peek and recv_slice disagree on emptiness".to_string())),
                    }
                }
                _ => {
                    let r = guard("udp::recv", || so.recv().ok().map(|(b, m)| (b.to_vec(), m)))?;
                    match (&head, &r) {
                        (Some((hb, hm)), Some((b, m))) => {
                            if hb != b || hm.endpoint != m.endpoint || hm.local_address != m.local_address {
                                return Err(viol("C09", "rx-fifo", "C09.rx/peek-recv-disagree", "peek and the following recv returned different datagrams".to_string()));
                            }
                        }
                        (None, None) => {}
                        _ => {
                            return Err(viol("C09", "rx-fifo", "C09.rx/peek-recv-disagree", "peek and recv disagree on emptiness".to_string()));
                        }
                    }
                    r.map(|(b, m)| Arrival { payload: b, src: crate::mk::from_smol(&m.endpoint.addr), sport: m.endpoint.port, dst: m.local_address.map(|a| crate::mk::from_smol(&a)).unwrap_or(st.addrs[n]) })
                }
            }
        }
        Kind::Icmp => {
            let so = w.nodes[n].sockets.get_mut::<icmp::Socket>(s.h);
            let q0 = so.recv_queue();
            let r = match mode {
                1 | 3 => {
                    // no ICMP message is shorter than its 8 octet header: this buffer is always too small, and the
                    // documented outcome is that the head message is dropped
                    let mut small = [0u8; 7];
                    let r = guard("icmp::recv_slice", || so.recv_slice(&mut small).map(|(k, _)| k))?;
                    match r {
                        // (a queue holding only ring padding reports a non-zero length and is still exhausted)
                        Err(icmp::RecvError::Exhausted) => {}
                        Err(icmp::RecvError::Truncated) if q0 > 0 && so.recv_queue() < q0 => w.stats.inc("dgram.truncated-recv"),
                        other => {
                            return Err(viol("C09", "truncated", "C09.rx/short-buffer-not-truncated", format!("icmp recv_slice into 7 bytes with {} octets queued returned {:?}, {} octets queued afterwards", q0, other, so.recv_queue())));
                        }
                    }
                    return Ok(q0 != 0);
                }
                4 | 5 => {
                    let mut buf = vec![0xa5u8; 4096];
                    let r = guard("icmp::recv_slice", || so.recv_slice(&mut buf[..4093]).ok())?;
                    if buf[4093..] != [0xa5u8; 3] {
                        return Err(viol("C09", "rx-fifo", "C09.rx/peek-recv-disagree", "icmp recv_slice wrote beyond the slice it was given".to_string()));
                    }
                    if let Some((k, _)) = r {
                        // (the queue length may include ring padding in front of the message, which leaves with it)
                        if so.recv_queue() + k > q0 {
                            return Err(viol("C09", "rx-fifo", "C09.rx/peek-recv-disagree", format!("icmp recv_slice returned {} octets, receive queue {} -> {}", k, q0, so.recv_queue())));
                        }
                        w.stats.inc("dgram.recv-slice");
                    }
                    r.map(|(k, a)| (buf[..k].to_vec(), a))
                }
                _ => guard("icmp::recv", || so.recv().ok().map(|(b, a)| (b.to_vec(), a)))?,
            };
            match r {
                None => None,
                Some((b, a)) => {
                    if b.len() < 8 {
                        return Err(viol("C09", "rx-fifo", "C09.rx/icmp-short", "ICMP socket delivered a message shorter than its header".to_string()));
                    }
                    let seq = ((b[6] as u16) << 8) | b[7] as u16;
                    Some(Arrival { payload: b[8..].to_vec(), src: crate::mk::from_smol(&a), sport: seq, dst: st.addrs[n] })
                }
            }
        }
    };
    let Some(a) = got else { return Ok(false) };
    w.stats.inc("dgram.delivered");
    if !(w.props.has("C09") || w.props.has("C12")) {
        return Ok(true);
    }
    // subsequence oracle
    let mut found = None;
    for i in s.arr_ptr..s.arrivals.len() {
        if s.arrivals[i] == a {
            found = Some(i);
            break;
        }
    }
    if found.is_none() {
        // a reassembled datagram: as many deliveries as complete sets of its fragments arrived
        for fa in s.frag_arrivals.iter_mut() {
            if fa.0 == a {
                let cap = st.frag_rx[n].get(&fa.1).map(|acc| acc.copies.values().copied().min().unwrap_or(0)).unwrap_or(0);
                if fa.2 < cap {
                    fa.2 += 1;
                    w.stats.inc("dgram.delivered-reassembled");
                    return Ok(true);
                }
            }
        }
    }
    match found {
        Some(i) => {
            s.arr_ptr = i + 1;
            Ok(true)
        }
        None => {
            let earlier = s.arrivals[..s.arr_ptr].iter().any(|x| *x == a);
            let similar = s.arrivals.iter().any(|x| x.payload == a.payload) || s.frag_arrivals.iter().any(|x| x.0.payload == a.payload);
            let big = a.payload.len() + 28 > st.mtu_ip[1 - n];
            let (prop, oracle) = if big && !st.v6 { ("C12", "rx-reassembly") } else { ("C09", "rx-fifo") };
            let why = if earlier { "duplicate-or-reordered" } else if similar { "wrong-metadata" } else { "never-arrived-or-altered" };
            Err(viol(
                if big && !st.v6 { "C12" } else { "C09" },
                oracle,
                format!("{}.rx/{}", prop, why),
                format!("socket {}{} delivered a datagram ({} bytes from {}:{} to {}) that is not the next of the valid datagrams that arrived for it ({} arrivals, {} consumed)", name, si, a.payload.len(), a.src, a.sport, a.dst, s.arrivals.len(), s.arr_ptr),
            ))
        }
    }
}
