//! C18: real DHCPv4 client + scripted server on Ethernet, exact poll_at discipline, lossy and
//! lying server, time jumps up to years.

use crate::codec::*;
use crate::core::*;
use crate::dhcpdns::*;
use crate::mk::*;
use crate::tap::{self, NodeView};
use crate::tape::{LogHash, Tape};
use smoltcp::socket::dhcpv4;
use smoltcp::time::Duration;
use smoltcp::wire::{IpCidr, Ipv4Address, Ipv4Cidr};

const V_MAC: [u8; 6] = [2, 0, 0, 0, 0, 1];
const S_MAC: [u8; 6] = [2, 0, 0, 0, 0, 0x53];
const S_IP: [u8; 4] = [10, 0, 0, 2];

#[derive(Clone, Debug)]
struct AckInfo {
    yiaddr: [u8; 4],
    prefix: u8,
    router: Option<[u8; 4]>,
    lease_s: u64,
    /// the server sent no T1/T2 options (the client's defaults apply: T1 = L/2, T2 = 7L/8)
    default_timers: bool,
    /// the message was generated without any deliberate defect
    plain: bool,
}

struct C<'a> {
    tape: &'a mut Tape,
    props: Props,
    node: Node,
    view: NodeView,
    now: i64,
    stats: Stats,
    hash: LogHash,
    trace: Vec<String>,
    trace_on: bool,
    events: u64,
    h: smoltcp::iface::SocketHandle,
    // ---- reference state
    configured: Option<(Ipv4Cidr, Option<Ipv4Address>)>,
    /// xid of the most recent REQUEST seen on the wire
    last_req_xid: Option<u32>,
    last_any_xid: Option<u32>,
    /// server messages in flight: (deliver_at, frame, Some(ack info) if it is a valid ACK by the statement's criteria)
    inflight: Vec<(i64, Vec<u8>, Option<AckInfo>, u32)>,
    /// valid ACKs ingested: (t_ingested, info)
    acks: Vec<(i64, AckInfo)>,
    /// latest lease deadline (relaxed: max over valid ACKs since the last deconfiguration)
    deadline_relaxed: Option<i64>,
    deadline_strict: Option<i64>,
    all_plain: bool,
    max_lease: Option<u64>,
    retry: dhcpv4::RetryConfig,
    /// the retry configuration currently set on the socket (`retry` is the laxest one seen so far)
    retry_now: dhcpv4::RetryConfig,
    /// the application is a member of 224.0.0.251
    joined: bool,
    /// inside an early-poll probe (no application calls there)
    probing: bool,
    last_client_tx: Option<i64>,
    /// after the latest valid ACK: first unicast / broadcast REQUEST times
    renew_seen: Option<i64>,
    rebind_seen: Option<i64>,
    bound_at: Option<i64>,
    server_silent: bool,
    arp_answer: bool,
    polled_exactly: bool,
    /// no late poll happened since the current lease was bound
    exact_since_bound: bool,
    /// server frames damaged after checksumming (UDP checksum provably wrong): must be equivalent to no frame
    damaged: Vec<Vec<u8>>,
    idle: u32,
    start_us: i64,
    /// instants of the latest polls (the neighbour-discovery silence of a socket ends exactly 1 s after one)
    recent_polls: std::collections::VecDeque<i64>,
    /// an ARP request for the server is outstanding (no reply ingested since)
    arp_pending: bool,
}

impl<'a> C<'a> {
    fn log(&mut self, f: impl FnOnce() -> String) {
        if self.trace_on && self.trace.len() < 3000 {
            let s = f();
            self.trace.push(format!("t={:>14.6}s {}", self.now as f64 / 1e6, s));
        }
    }
}

/// A per-thread scratch area handed to the DHCP socket as its `'static` receive-packet buffer.  Runs on one
/// thread are sequential and the socket of the previous run is dropped before the next run starts, so the
/// memory is never referenced twice at the same time.
fn thread_static_buffer(len: usize) -> &'static mut [u8] {
    thread_local! {
        static BUF: std::cell::Cell<*mut u8> = const { std::cell::Cell::new(std::ptr::null_mut()) };
    }
    const CAP: usize = 2048;
    let p = BUF.with(|b| {
        if b.get().is_null() {
            let leaked: &'static mut [u8] = Box::leak(vec![0u8; CAP].into_boxed_slice());
            b.set(leaked.as_mut_ptr());
        }
        b.get()
    });
    unsafe { std::slice::from_raw_parts_mut(p, len.min(CAP)) }
}

pub fn run(tape: &mut Tape, props: Props, thorough: bool, trace_on: bool) -> Outcome {
    let mut cfg = NodeCfg::basic('V', Medium::Ethernet, 1514, 1, false);
    cfg.addrs = vec![];
    cfg.mac = V_MAC;
    cfg.seed = 3 + tape.draw(1 << 20);
    cfg.start_us = *tape.pick(&[0i64, 1_000_000, 86_400_000_000 * 365 * 30]);
    let mut node = build_node(&cfg);
    let mut view = cfg.view();
    view.dhcp = true;
    let mut s = dhcpv4::Socket::new();
    let max_lease = match tape.draw(16) {
        0..=5 => None,
        6..=9 => Some(3600u64),
        10..=12 => Some(60),
        13 | 14 => Some(10),
        _ => Some(3),
    };
    s.set_max_lease_duration(max_lease.map(Duration::from_secs));
    let mut retry = dhcpv4::RetryConfig::default();
    match tape.draw(4) {
        0 => {}
        1 => {
            retry.discover_timeout = Duration::from_secs(2);
            retry.initial_request_timeout = Duration::from_secs(1);
            retry.request_retries = 3;
        }
        2 => {
            retry.min_renew_timeout = Duration::from_secs(5);
            retry.max_renew_timeout = Duration::from_secs(30);
        }
        _ => {
            retry.discover_timeout = Duration::from_millis(500);
            retry.initial_request_timeout = Duration::from_millis(300);
            // (beyond ~80 retries the doubling timeout exceeds 10^4 years and then the range of Instant: not explored)
            retry.request_retries = *tape.pick(&[1u16, 5, 20, 40]);
            retry.min_renew_timeout = Duration::from_secs(1);
        }
    }
    s.set_retry_config(retry);
    // rarely used options: a user buffer that receives a copy of every accepted server message (smaller than
    // some of the messages the scripted server sends), an explicit parameter request list, extra outgoing options
    let rxbuf_len = match tape.draw(4) {
        0 => Some(*tape.pick(&[300usize, 576, 1200, 64])),
        _ => None,
    };
    if let Some(n) = rxbuf_len {
        s.set_receive_packet_buffer(thread_static_buffer(n));
    }
    if tape.draw(4) == 0 {
        static PRL: [u8; 4] = [1, 3, 6, 42];
        s.set_parameter_request_list(&PRL);
    }
    if tape.draw(4) == 0 {
        static OPTS: [smoltcp::wire::DhcpOption<'static>; 2] = [smoltcp::wire::DhcpOption { kind: 12, data: b"simhost" }, smoltcp::wire::DhcpOption { kind: 60, data: b"verif" }];
        s.set_outgoing_options(&OPTS);
    }
    let ignore_naks = tape.draw(4) == 0;
    s.set_ignore_naks(ignore_naks);
    let h = node.sockets.add(s);
    // sometimes the application joins an IPv4 multicast group before the interface has an address: membership
    // reports need one and must not leave before there is one
    let joined = tape.draw(4) == 0;
    if joined {
        let _ = node.iface.join_multicast_group(smoltcp::wire::Ipv4Address::new(224, 0, 0, 251));
    }
    let desc = format!("dhcp max_lease={:?} retry={:?} ignore_naks={} start={}us rx-packet-buffer={:?}", max_lease, retry, ignore_naks, cfg.start_us, rxbuf_len);
    let now = cfg.start_us;
    let mut c = C {
        tape,
        props,
        node,
        view,
        now,
        stats: Stats::default(),
        hash: LogHash::new(),
        trace: vec![],
        trace_on,
        events: 0,
        h,
        configured: None,
        last_req_xid: None,
        last_any_xid: None,
        inflight: vec![],
        acks: vec![],
        deadline_relaxed: None,
        deadline_strict: None,
        all_plain: true,
        max_lease,
        retry,
        retry_now: retry,
        joined,
        probing: false,
        last_client_tx: None,
        renew_seen: None,
        rebind_seen: None,
        bound_at: None,
        server_silent: false,
        arp_answer: true,
        polled_exactly: true,
        exact_since_bound: true,
        damaged: vec![],
        idle: 0,
        start_us: now,
        recent_polls: Default::default(),
        arp_pending: false,
    };
    let r = body(&mut c, thorough);
    let nontrivial = c.stats.get("dhcp.configured-events") >= 1 && c.stats.get("dhcp.server-messages") >= 2;
    c.stats.add("sim.seconds", ((c.now - now) / 1_000_000) as u64);
    Outcome { viol: r.err(), stats: c.stats, hash: c.hash, nontrivial, trace: c.trace, sim_us: c.now - now, events: c.events, cfg_desc: desc }
}

fn lease_of(c: &C, a: &AckInfo) -> i64 {
    let l = match c.max_lease {
        Some(m) => a.lease_s.min(m),
        None => a.lease_s,
    };
    (l as i64).saturating_mul(1_000_000)
}

/// One interface poll at c.now, then read the client's events like an application would.
fn poll(c: &mut C) -> Result<(), Violation> {
    c.events += 1;
    c.hash.u64(c.now as u64);
    // which in-flight server messages get ingested by this poll?
    let mut ingested: Vec<(Option<AckInfo>, u32)> = vec![];
    c.inflight.sort_by_key(|x| x.0);
    while let Some(first) = c.inflight.first() {
        if first.0 > c.now {
            break;
        }
        let (_, f, ai, xid) = c.inflight.remove(0);
        if f.len() >= 14 && f[12] == 0x08 && f[13] == 0x06 {
            c.arp_pending = false;
        }
        c.hash.bytes(&f);
        if c.damaged.contains(&f) && c.props.has("C08") {
            if !c.node.dev.rx.is_empty() {
                // other frames are due in the same poll: the single-frame check would see their effect; count as lost
                c.stats.inc("fault.drop");
                continue;
            }
            // C08 clause 3: delivered alone, a frame whose UDP checksum fails changes nothing and is not answered
            let h = c.h;
            let before = format!("{:?}", c.node.sockets.get::<dhcpv4::Socket>(h));
            c.node.dev.rx.push_back(f.clone());
            let now = c.now;
            let info = c.node.poll_ingress_single(now)?;
            let after = format!("{:?}", c.node.sockets.get::<dhcpv4::Socket>(h));
            c.stats.inc("c08.corrupt-alone-checked");
            if before != after || !info.tx.is_empty() {
                let (a, b) = crate::scen_tcp::first_diff(&before, &after);
                return Err(viol("C08", "corrupt-equals-loss", "C08.corrupt/dhcp-message-with-failing-udp-checksum-accepted", format!("a DHCP server message whose UDP checksum does not verify changed the DHCP client ({} frames transmitted in answer): ..{}.. => ..{}..", info.tx.len(), a, b)));
            }
            continue;
        }
        c.node.dev.rx.push_back(f);
        ingested.push((ai, xid));
        c.stats.inc("frames.delivered");
    }
    let req_xid_before = c.last_req_xid;
    c.recent_polls.push_back(c.now);
    if c.recent_polls.len() > 64 {
        c.recent_polls.pop_front();
    }
    let mut ingested_valid_now = false;
    let info = c.node.poll(c.now)?;
    // a valid ACK counts if it carries the xid of the most recent REQUEST sent before it arrived
    for (ai, xid) in ingested {
        if let Some(ai) = ai {
            if req_xid_before == Some(xid) {
                let l = lease_of(c, &ai);
                let dl = c.now.saturating_add(l);
                c.deadline_relaxed = Some(c.deadline_relaxed.map(|d| d.max(dl)).unwrap_or(dl));
                c.deadline_strict = Some(dl);
                if !ai.plain {
                    c.all_plain = false;
                }
                c.acks.push((c.now, ai));
                c.renew_seen = None;
                c.rebind_seen = None;
                c.bound_at = Some(c.now);
                c.exact_since_bound = c.polled_exactly;
                c.stats.inc("dhcp.valid-acks-ingested");
                ingested_valid_now = true;
            }
        }
    }
    c.view.dhcp_leased_unapplied = c.acks.iter().filter(|(t, _)| *t == c.now && ingested_valid_now).map(|(_, a)| IpAddr::V4(a.yiaddr)).collect();
    // ---- what the client put on the wire
    for raw in &info.tx {
        c.hash.bytes(raw);
        c.stats.inc("frames.tx");
        let pkt = tap::check_frame(c.props, &c.view, raw, &mut c.stats)?;
        let Some(p) = pkt else { continue };
        let sm = p.summary();
        if let Some(arp) = &p.arp {
            if arp.op == 1 && arp.tpa == S_IP {
                c.arp_pending = true;
                // resolving the server's address is the first step of a unicast renewal attempt
                if (c.configured.is_some() || ingested_valid_now) && c.renew_seen.is_none() {
                    c.renew_seen = Some(c.now);
                }
            }
            if arp.op == 1 && arp.tpa == S_IP && c.arp_answer {
                let r = Arp { op: 2, sha: S_MAC, spa: S_IP, tha: arp.sha, tpa: arp.spa };
                let f = enc_eth(arp.sha, S_MAC, ETH_ARP, &enc_arp(&r));
                let at = c.now + 1_000;
                c.inflight.push((at, f, None, 0));
            }
            continue;
        }
        let Some((ip, u)) = p.udp() else { continue };
        if u.dport != 67 {
            continue;
        }
        let Ok(d) = dec_dhcp(&u.payload) else { continue };
        let mt = d.msg_type().unwrap_or(0);
        c.log(|| format!("client: {} type={} xid={:#x} ciaddr={:?} dst={}", sm, mt, d.xid, d.ciaddr, ip.dst));
        c.stats.inc(match mt {
            DHCP_DISCOVER => "dhcp.client-discover",
            DHCP_REQUEST => "dhcp.client-request",
            _ => "dhcp.client-other",
        });
        // (4) bounded soliciting while unconfigured and polled exactly
        solicit_gap(c)?;
        c.last_client_tx = if c.configured.is_none() { Some(c.now) } else { None };
        c.last_any_xid = Some(d.xid);
        if mt == DHCP_REQUEST {
            c.last_req_xid = Some(d.xid);
            // (3) renew (unicast) before rebind (broadcast) before expiry
            // (with T1 = T2 = 0 the first renewing / rebinding REQUEST leaves in the very poll that took the ACK in,
            // before the application has seen the Configured event)
            if (c.configured.is_some() || ingested_valid_now) && d.ciaddr != [0; 4] {
                let bcast = ip.dst.is_limited_broadcast();
                if bcast {
                    if c.rebind_seen.is_none() {
                        c.rebind_seen = Some(c.now);
                        if c.props.has("C18") && c.renew_seen.is_none() && c.polled_exactly {
                            if let (Some(b), Some(dl)) = (c.bound_at, c.deadline_strict) {
                                if dl - b >= 4_000_000 && c.all_plain && c.acks.last().map(|a| a.1.default_timers).unwrap_or(false) {
                                    return Err(viol("C18", "renew-before-rebind", "C18.order/rebind-without-renew", format!("a broadcast (rebinding) REQUEST was sent {} us after binding without any unicast (renewing) REQUEST before it; lease {} us", c.now - b, dl - b)));
                                }
                            }
                        }
                    }
                } else if c.renew_seen.is_none() {
                    c.renew_seen = Some(c.now);
                }
            }
        }
        respond(c, &d, mt)?;
    }
    // (4) also when this poll sent nothing at all
    solicit_gap(c)?;
    // ---- now and then the application restarts the client (a link-up notification, say) before it gets to read
    // the events - more often right when the lease has just run out, so that a pending notification is at stake
    let lease_over = c.configured.is_some() && c.deadline_strict.map(|d| c.now >= d).unwrap_or(false);
    if !c.probing && c.tape.draw(if lease_over { 4 } else { 400 }) == 0 {
        let s = c.node.sockets.get_mut::<dhcpv4::Socket>(c.h);
        guard("dhcpv4::reset", || s.reset())?;
        c.stats.inc("dhcp.reset-before-reading-events");
        c.exact_since_bound = false;
    }
    // ---- the application reads the client's events and applies them
    let ev = {
        let s = c.node.sockets.get_mut::<dhcpv4::Socket>(c.h);
        guard("dhcpv4::poll", || {
            s.poll().map(|e| match e {
                dhcpv4::Event::Deconfigured => None,
                dhcpv4::Event::Configured(cfg) => Some((cfg.address, cfg.router, cfg.server.identifier, cfg.dns_servers.len())),
            })
        })?
    };
    match ev {
        None => {}
        Some(None) => {
            c.log(|| "event: Deconfigured".into());
            c.stats.inc("dhcp.deconfigured-events");
            // (3b) a lease that simply ran out must have seen at least one renewal attempt (unicast or broadcast
            // REQUEST, or the ARP request that precedes the unicast one) - judged for plain ACKs with default
            // timers, leases of at least 4 s and a node polled per poll_at ever since it was bound
            if c.props.has("C18") && c.configured.is_some() && c.exact_since_bound && c.all_plain {
                if let (Some(b), Some(dl)) = (c.bound_at, c.deadline_strict) {
                    // (whatever T1 / T2 the server named: the client uses them only when T1 < T2 < lease and falls back
                    // to fractions of the lease otherwise, so its first attempt is always due before the lease ends)
                    if c.now >= dl && dl - b >= 4_000_000 && c.renew_seen.is_none() && c.rebind_seen.is_none() {
                        return Err(viol("C18", "renew-before-rebind", "C18.order/lease-expired-without-any-renewal-attempt", format!("the lease bound at {} us ran out at {} us ({} us) without a single renewing or rebinding REQUEST", b, dl, dl - b)));
                    }
                }
            }
            c.configured = None;
            c.acks.clear();
            c.deadline_relaxed = None;
            c.deadline_strict = None;
            c.all_plain = true;
            c.bound_at = None;
            // soliciting (re)starts here
            c.last_client_tx = if c.polled_exactly { Some(c.now) } else { None };
            c.node.iface.update_ip_addrs(|a| a.clear());
            c.node.iface.routes_mut().remove_default_ipv4_route();
            c.view.addrs.clear();
        }
        Some(Some((addr, router, _sid, _ndns))) => {
            c.log(|| format!("event: Configured {} router={:?}", addr, router));
            c.stats.inc("dhcp.configured-events");
            // (1) justified by a valid ACK?
            if c.props.has("C18") {
                let a4 = addr.address().octets();
                let just = c.acks.iter().rev().take(4).any(|(_, a)| a.yiaddr == a4 && a.prefix == addr.prefix_len() && a.router.map(Ipv4Address::from) == router);
                if !just {
                    let why = if c.acks.is_empty() { "no-valid-ack" } else { "content-differs-from-ack" };
                    return Err(viol("C18", "justified-config", format!("C18.config/{}", why), format!("the client reported Configured({} router {:?}) but the valid ACKs ingested so far are {:?}", addr, router, c.acks.iter().rev().take(3).collect::<Vec<_>>())));
                }
            }
            c.configured = Some((addr, router));
            c.last_client_tx = None;
            c.node.iface.update_ip_addrs(|a| {
                a.clear();
                let _ = a.push(IpCidr::Ipv4(addr));
            });
            match router {
                Some(r) => {
                    let _ = c.node.iface.routes_mut().add_default_ipv4_route(r);
                }
                None => {
                    c.node.iface.routes_mut().remove_default_ipv4_route();
                }
            }
            c.view.addrs = vec![(IpAddr::V4(addr.address().octets()), addr.prefix_len())];
        }
    }
    // (2) never configured past the lease
    if c.props.has("C18") && c.configured.is_some() {
        let dl = if c.all_plain { c.deadline_strict } else { c.deadline_relaxed };
        match dl {
            None => {
                return Err(viol("C18", "lease", "C18.lease/configured-without-lease", "the client is configured but no valid ACK justifies any lease".to_string()));
            }
            Some(dl) => {
                if c.now >= dl && !ingested_valid_now {
                    return Err(viol("C18", "lease", "C18.lease/configured-past-expiry", format!("after a poll at t={} us the client still reports its address as configured although the lease granted by the most recent valid ACK ended at t={} us ({} us ago)", c.now, dl, c.now - dl)));
                }
                // poll_at must not exceed the expiry
                let pa = c.node.poll_at(c.now)?;
                match pa {
                    Some(t) if t <= dl => {}
                    other => {
                        return Err(viol("C18", "lease", if c.arp_pending || other.map(|t| c.recent_polls.contains(&(t - 1_000_000))).unwrap_or(false) { "C18.lease/poll_at-beyond-expiry/while-server-neighbor-unresolved" } else { "C18.lease/poll_at-beyond-expiry" }, format!("while configured, Interface::poll_at returned {:?} but the lease expires at {} us (now {} us)", other, dl, c.now)));
                    }
                }
            }
        }
    }
    Ok(())
}

fn solicit_gap(c: &C) -> Result<(), Violation> {
    if c.props.has("C18") && c.configured.is_none() && c.polled_exactly {
        if let Some(t) = c.last_client_tx {
            let r = &c.retry;
            // the REQUEST timeout doubles every second retry, up to the configured number of retries
            let shift = ((r.request_retries.saturating_sub(1)) / 2) as u32;
            let mult = if shift < 40 { 1u64 << shift } else { u64::MAX };
            let bound = r.discover_timeout.total_micros().max(r.initial_request_timeout.total_micros().saturating_mul(mult)).min(i64::MAX as u64 / 4) as i64 + 1_000_000;
            if c.now - t > bound {
                return Err(viol("C18", "soliciting", "C18.solicit/gap-exceeds-retry-config", format!("{} us without a client message while unconfigured (last one at {} us); the retry configuration allows at most {} us", c.now - t, t, bound)));
            }
        }
    }
    Ok(())
}

/// Reads a server message the way the statement does: a DHCPACK with the given transaction id, the
/// client's hardware address, a server identifier, a contiguous subnet mask and a unicast yiaddr.  Options
/// are read up to END, the end of the message or the first option that overruns it.
fn derive_ack(b: &[u8], req_xid: u32, plain: bool) -> Option<AckInfo> {
    if b.len() < 240 || b[236..240] != [99, 130, 83, 99] {
        return None;
    }
    let xid = u32::from_be_bytes([b[4], b[5], b[6], b[7]]);
    if xid != req_xid || b[28..34] != V_MAC {
        return None;
    }
    let mut yiaddr = [0u8; 4];
    yiaddr.copy_from_slice(&b[16..20]);
    let mut opts: Vec<(u8, &[u8])> = vec![];
    let mut i = 240;
    while i < b.len() {
        let code = b[i];
        if code == 0 {
            i += 1;
            continue;
        }
        if code == 255 || i + 2 > b.len() {
            break;
        }
        let l = b[i + 1] as usize;
        if i + 2 + l > b.len() {
            break;
        }
        opts.push((code, &b[i + 2..i + 2 + l]));
        i += 2 + l;
    }
    let get = |code: u8| opts.iter().find(|(c, _)| *c == code).map(|(_, v)| *v);
    let be32 = |v: &[u8]| if v.len() == 4 { Some(u32::from_be_bytes([v[0], v[1], v[2], v[3]])) } else { None };
    if get(53) != Some(&[DHCP_ACK][..]) {
        return None;
    }
    be32(get(54)?)?;
    let mask = be32(get(1)?)?;
    if mask.leading_ones() + mask.trailing_zeros() != 32 {
        return None;
    }
    let y = u32::from_be_bytes(yiaddr);
    if y == 0 || y == u32::MAX || yiaddr[0] >= 224 {
        return None;
    }
    // the directed broadcast address of the granted subnet is not a unicast address either
    let plen = mask.leading_ones();
    if plen < 31 && y | !mask == y {
        return None;
    }
    let router = get(3).and_then(|v| if v.len() >= 4 { Some([v[0], v[1], v[2], v[3]]) } else { None });
    let lease_s = get(51).and_then(be32).map(|l| l as u64).unwrap_or(120);
    Some(AckInfo { yiaddr, prefix: mask.leading_ones() as u8, router, lease_s, default_timers: get(58).is_none() && get(59).is_none(), plain })
}

/// The scripted server reacts to a client message.
fn respond(c: &mut C, d: &Dhcp, mt: u8) -> Result<(), Violation> {
    if c.server_silent {
        return Ok(());
    }
    let behaviour = c.tape.draw(20);
    if behaviour == 0 {
        c.stats.inc("dhcp.server-withheld");
        return Ok(());
    }
    let mut r = Dhcp { op: 2, xid: d.xid, chaddr: d.chaddr, yiaddr: [10, 0, 0, 50 + c.tape.draw(4) as u8], siaddr: S_IP, ..Dhcp::default() };
    let mut reply_type = match mt {
        DHCP_DISCOVER => DHCP_OFFER,
        DHCP_REQUEST => DHCP_ACK,
        _ => return Ok(()),
    };
    let mut lease: Option<u32> = Some(*c.tape.pick(&[3600u32, 60, 3600, 600, 120, 86400, u32::MAX, 30, 7200, 10, 4, 300, 900, 43200]));
    // very short leases mostly end in the listed finding (neighbour-discovery silence outlasting the lease): rare
    if c.tape.draw(48) == 0 {
        lease = Some(*c.tape.pick(&[1u32, 0, 2]));
    }
    let mut t1: Option<u32> = None;
    let mut t2: Option<u32> = None;
    match c.tape.draw(8) {
        0 => {
            t1 = Some(lease.unwrap_or(120) / 2);
            t2 = Some(lease.unwrap_or(120) / 8 * 7);
        }
        1 => {
            // (T1 = 0 renews in the poll that ingests the ACK, before the application can apply the address: listed C10 finding, kept rare)
            t1 = Some(*c.tape.pick(&[1u32, 5, u32::MAX, 1, 5, u32::MAX, 20, 0]));
        }
        2 => {
            t2 = Some(*c.tape.pick(&[1u32, 5, u32::MAX, 1, 5, u32::MAX, 20, 0]));
        }
        3 => {
            // inverted / equal
            t1 = Some(20);
            t2 = Some(*c.tape.pick(&[20u32, 10, 0]));
        }
        _ => {}
    }
    if c.tape.draw(10) == 0 {
        lease = None;
    }
    let mut mask = [255u8, 255, 255, 0];
    let mut server_id = Some(S_IP);
    let mut router = if c.tape.draw(3) == 0 { None } else { Some([10, 0, 0, 1 + c.tape.draw(3) as u8]) };
    let mut valid = true;
    let mut plain = true;
    match behaviour {
        1 => {
            r.xid ^= 0x0100;
            valid = false;
        }
        2 => {
            r.chaddr = [2, 0, 0, 0, 0, 9];
            valid = false;
        }
        3 => {
            server_id = None;
            valid = false;
        }
        4 => {
            // (also with an all-zero octet between the end of the run of ones and later one-bits)
            mask = *c.tape.pick(&[[255u8, 0, 255, 0], [255, 255, 255, 1], [0, 255, 255, 255], [255, 0, 0, 1], [255, 128, 0, 255], [0, 0, 255, 0], [254, 0, 128, 0], [255, 255, 0, 128], [255, 255, 254, 255], [127, 255, 255, 0]]);
            valid = false;
        }
        5 => {
            r.yiaddr = *c.tape.pick(&[[255u8, 255, 255, 255], [224, 0, 0, 1], [0, 0, 0, 0]]);
            valid = false;
        }
        6 => {
            reply_type = DHCP_NAK;
            valid = false;
        }
        7 => {
            reply_type = *c.tape.pick(&[DHCP_OFFER, DHCP_ACK, DHCP_INFORM, DHCP_DECLINE, 0, 200]);
            valid = reply_type == DHCP_ACK && mt == DHCP_REQUEST;
            plain = false;
        }
        8 => {
            mask = *c.tape.pick(&[[255u8, 255, 255, 255], [255, 255, 255, 252], [255, 0, 0, 0], [0, 0, 0, 0]]);
            plain = false;
        }
        _ => {}
    }
    if reply_type != DHCP_ACK || mt != DHCP_REQUEST {
        valid = false;
    }
    r.options.push((53, vec![reply_type]));
    if let Some(s) = server_id {
        r.options.push((54, s.to_vec()));
    }
    if let Some(l) = lease {
        r.options.push((51, l.to_be_bytes().to_vec()));
    }
    if let Some(t) = t1 {
        r.options.push((58, t.to_be_bytes().to_vec()));
    }
    if let Some(t) = t2 {
        r.options.push((59, t.to_be_bytes().to_vec()));
    }
    if behaviour != 9 {
        r.options.push((1, mask.to_vec()));
    } else {
        // missing subnet mask
        valid = false;
    }
    if let Some(rt) = router {
        r.options.push((3, rt.to_vec()));
    }
    if c.tape.draw(3) == 0 {
        let n = c.tape.range(1, 4) as usize;
        let mut v = vec![];
        for i in 0..n {
            v.extend_from_slice(&[10, 0, 0, 100 + i as u8]);
        }
        r.options.push((6, v));
    }
    // pad octets (option 0, e.g. for word alignment) may sit between any two options
    if c.tape.draw(4) == 0 {
        let n = 1 + c.tape.draw(3) as usize;
        for _ in 0..n {
            let at = c.tape.draw(r.options.len() as u64 + 1) as usize;
            r.options.insert(at, (0, vec![]));
        }
        c.stats.inc("dhcp.server-messages-with-pad-options");
    }
    let mut b = enc_dhcp(&r);
    // structural damage (never counted as valid)
    match behaviour {
        10 => {
            let cut = c.tape.draw(b.len() as u64) as usize;
            b.truncate(cut);
            valid = false;
            plain = false;
        }
        11 => {
            // an option length that overruns the message
            let at = 240 + 1;
            if b.len() > at {
                b[at] = 250;
            }
            valid = false;
            plain = false;
        }
        12 => {
            // overlong: lots of padding and a huge unknown option
            b.pop();
            b.extend_from_slice(&[0u8; 40]);
            b.push(224);
            b.push(255);
            b.extend_from_slice(&[0x55u8; 255]);
            b.push(255);
            plain = false;
        }
        _ => {}
    }
    // Whether this is a "valid ACK" in the statement's sense is decided from the bytes actually sent
    // (a message cut at an option boundary is still a well-formed ACK with fewer options), never from the
    // intention of the generator.
    let ai = if mt == DHCP_REQUEST { derive_ack(&b, d.xid, plain) } else { None };
    let _ = valid;
    let valid = ai.is_some();
    // delivery: broadcast or unicast to yiaddr, delayed, duplicated or lost
    let dst_ip = if c.tape.draw(2) == 0 { IpAddr::V4([255, 255, 255, 255]) } else { IpAddr::V4(r.yiaddr) };
    let src = IpAddr::V4(S_IP);
    let udp = enc_udp(&src, &dst_ip, 67, 68, &b);
    let ipb = enc_ip(&src, &dst_ip, P_UDP, 64, &udp);
    let l2dst = if dst_ip.is_limited_broadcast() { [0xff; 6] } else { V_MAC };
    let f = enc_eth(l2dst, S_MAC, ETH_IPV4, &ipb);
    // bit damage after checksumming, inside the DHCP message: the UDP checksum provably fails
    let (f, ai, valid) = if c.tape.draw(16) == 15 && f.len() > 14 + 20 + 8 + 240 {
        let mut g = f.clone();
        let pos = 14 + 20 + 8 + c.tape.draw((g.len() - 42) as u64) as usize;
        g[pos] ^= 1 << c.tape.draw(8);
        match crate::world::lenient_decode(Medium::Ethernet, &g) {
            Err(crate::world::LenientErr::Checksum) => {
                c.damaged.push(g.clone());
                c.stats.inc("fault.corrupt-checksum-detectable");
                (g, None, false)
            }
            _ => (f, ai, valid),
        }
    } else {
        (f, ai, valid)
    };
    let fate = c.tape.draw(10);
    c.stats.inc("dhcp.server-messages");
    if fate == 0 {
        c.stats.inc("fault.drop");
        c.log(|| format!("server: type {} (valid={}) LOST", reply_type, valid));
        return Ok(());
    }
    let delay = match c.tape.draw(6) {
        0 | 1 | 2 => 1_000i64,
        3 => 400_000,
        4 => 2_500_000,
        _ => *c.tape.pick(&[6_000_000i64, 30_000_000, 200_000_000]),
    };
    c.log(|| format!("server: type {} xid={:#x} valid={} plain={} lease={:?} t1={:?} t2={:?} delay={}us", reply_type, r.xid, valid, plain, lease, t1, t2, delay));
    c.inflight.push((c.now + delay, f.clone(), ai.clone(), r.xid));
    if fate == 1 {
        c.stats.inc("fault.dup");
        c.inflight.push((c.now + delay + 700_000, f, ai, r.xid));
    }
    Ok(())
}

fn body(c: &mut C, thorough: bool) -> Result<(), Violation> {
    let steps = c.tape.range(20, if thorough { 800 } else { 250 });
    for _ in 0..steps {
        let tx_before_poll = c.stats.get("frames.tx");
        poll(c)?;
        // scenario switches
        let mut group_call = false;
        match c.tape.draw(240) {
            0..=5 => {
                c.server_silent = !c.server_silent;
                c.stats.inc("dhcp.server-silence-toggled");
            }
            6 => {
                c.arp_answer = !c.arp_answer;
                c.stats.inc("dhcp.arp-silence-toggled");
            }
            7 | 8 => {
                // the application changes the retry configuration of the running client (fewer or more REQUEST
                // retries, other time-outs); the gap oracle goes by the laxest configuration seen so far
                let mut r = c.retry_now;
                r.request_retries = *c.tape.pick(&[1u16, 2, 3, 5, 8]);
                if c.tape.draw(2) == 0 {
                    r.discover_timeout = Duration::from_secs(*c.tape.pick(&[1u64, 5, 10]));
                    r.initial_request_timeout = Duration::from_millis(*c.tape.pick(&[300u64, 1000, 5000]));
                }
                c.retry_now = r;
                let h = c.h;
                let so = c.node.sockets.get_mut::<dhcpv4::Socket>(h);
                guard("dhcpv4::set_retry_config", || so.set_retry_config(r))?;
                c.retry.request_retries = c.retry.request_retries.max(r.request_retries);
                c.retry.discover_timeout = c.retry.discover_timeout.max(r.discover_timeout);
                c.retry.initial_request_timeout = c.retry.initial_request_timeout.max(r.initial_request_timeout);
                c.stats.inc("dhcp.retry-config-changed-at-run-time");
            }
            9 if c.joined => {
                // ... or leaves the multicast group it joined at start (possibly while the interface has no address)
                let iface = &mut c.node.iface;
                let _ = guard("leave_multicast_group", || iface.leave_multicast_group(smoltcp::wire::Ipv4Address::new(224, 0, 0, 251)))?;
                c.joined = false;
                group_call = true;
                c.stats.inc("dhcp.group-left-at-run-time");
            }
            _ => {}
        }
        // next instant
        let d = c.node.poll_at(c.now)?;
        c.inflight.sort_by_key(|x| x.0);
        let next_rx = c.inflight.first().map(|x| x.0);
        let mut next = match (d, next_rx) {
            (Some(a), Some(b)) => a.min(b),
            (Some(a), None) => a,
            (None, Some(b)) => b,
            (None, None) => {
                if c.props.has("C18") {
                    return Err(viol("C18", "soliciting", "C18.solicit/no-deadline", "the DHCP client reports no poll deadline at all".to_string()));
                }
                return Ok(());
            }
        };
        c.polled_exactly = true;
        // C13: an extra poll strictly before the deadline / next arrival transmits nothing; a poll that
        // moved nothing is followed by a later deadline
        if c.props.has("C13") {
            if next <= c.now {
                c.idle += 1;
                if c.idle >= 4 && c.stats.get("frames.tx") == tx_before_poll && d.map(|t| t <= c.now).unwrap_or(false) {
                    return Err(viol("C13", "no-spin", "C13.spin/dhcp-client", format!("after {} consecutive polls at t={} us that moved no frame, poll_at still returns {:?}", c.idle, c.now, d)));
                }
            } else {
                c.idle = 0;
                // (IGMP / MLD messages are outside poll_at's account - assumption of C13 - so no probe right after the
                // application left a group)
                if next > c.now + 1 && !group_call && c.tape.draw(3) == 0 {
                    let t = if c.tape.draw(4) == 0 { next - 1 } else { c.now + 1 + c.tape.draw((next - c.now - 1) as u64) as i64 };
                    let before = c.stats.get("frames.tx");
                    let ev_before = c.stats.get("dhcp.deconfigured-events") + c.stats.get("dhcp.configured-events");
                    let unresolved = c.arp_pending;
                    let save = c.now;
                    c.now = t;
                    c.probing = true;
                    let r = poll(c);
                    c.probing = false;
                    r?;
                    c.stats.inc("c13.early-probes");
                    if c.stats.get("frames.tx") > before {
                        return Err(viol("C13", "sufficiency", "C13.early-tx/dhcp-client", format!("poll_at at t={} us returned {:?}; an extra poll at t={} us with nothing delivered in between transmitted a frame", save, d, t)));
                    }
                    // nor may a protocol timer fire in it silently: an event for the application (the lease ran
                    // out) before the instant poll_at named means sleeping until that instant delays it
                    if c.stats.get("dhcp.deconfigured-events") + c.stats.get("dhcp.configured-events") > ev_before {
                        let sig = if unresolved { "C13.early-event/dhcp-client/while-server-neighbor-unresolved" } else { "C13.early-event/dhcp-client" };
                        return Err(viol("C13", "sufficiency", sig, format!("poll_at at t={} us returned {:?}; an extra poll at t={} us with nothing delivered in between produced a DHCP event (a timer of the client was due before the instant poll_at named)", save, d, t)));
                    }
                    continue;
                }
            }
        }
        // a stalled node polls late (allowed by the lease clause: "unless no poll has happened since")
        if c.tape.draw(12) == 0 {
            next += *c.tape.pick(&[1_000i64, 500_000, 5_000_000, 120_000_000, 86_400_000_000]);
            c.polled_exactly = false;
            c.exact_since_bound = false;
            // the soliciting-gap clause only speaks about nodes polled per poll_at
            c.last_client_tx = None;
            c.stats.inc("sched.late-poll");
        }
        // simulated time is capped at 1000 years after the start of the run
        if next - c.start_us > 1000 * 365 * 86_400_000_000i64 {
            c.stats.inc("sched.time-cap");
            return Ok(());
        }
        if next <= c.now {
            // immediate work: poll again at the same instant (bounded by the step budget)
            continue;
        }
        c.now = next;
    }
    Ok(())
}
