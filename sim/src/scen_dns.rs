//! C19: real resolver socket + scripted DNS server(s). Completion only from a matching response;
//! every query terminates within a bound when polled per poll_at; no response content panics or
//! hangs the stack (guard + watchdog).

use crate::codec::*;
use crate::core::*;
use crate::dhcpdns::*;
use crate::mk::*;
use crate::tap::{self, NodeView};
use crate::tape::{LogHash, Tape};
use smoltcp::socket::dns;
use smoltcp::wire::DnsQueryType;

struct Q {
    handle: dns::QueryHandle,
    name: Vec<String>,
    qtype: u16,
    started: i64,
    done: bool,
    mdns: bool,
    /// learned from the wire
    port: Option<u16>,
    txid: Option<u16>,
    /// address sets of matching responses delivered so far
    justified: Vec<Vec<Vec<u8>>>,
    /// NXDomain / empty matching responses delivered
    neg: bool,
    last_tx: Option<i64>,
    last_gap: Option<i64>,
    tx_count: u32,
    /// destinations in the order they were first used, with the instant of the first transmission
    dests: Vec<(IpAddr, i64)>,
    /// responses of any kind delivered for this query
    responses_delivered: u32,
    /// the scripted server never answers this query (pure time-out behaviour)
    silent: bool,
}

struct C<'a> {
    tape: &'a mut Tape,
    props: Props,
    node: Node,
    view: NodeView,
    now: i64,
    stats: Stats,
    hash: LogHash,
    trace: Vec<String>,
    trace_on: bool,
    events: u64,
    v: IpAddr,
    servers: Vec<IpAddr>,
    h: smoltcp::iface::SocketHandle,
    qs: Vec<Q>,
    pending_rx: Vec<(i64, Vec<u8>)>,
    /// configured servers the stack keeps (DNS_MAX_SERVER_COUNT)
    n_servers: usize,
    all_servers: Vec<IpAddr>,
    /// the server list the application has configured at this moment
    cur_servers: Vec<IpAddr>,
    /// the node sits on an Ethernet (unreachable-servers mode): its hardware address, for the frames handed to it
    eth_mac: Option<[u8; 6]>,
    /// total time by which polls came later than poll_at asked (a stalled application)
    late_total: i64,
}

impl<'a> C<'a> {
    fn log(&mut self, f: impl FnOnce() -> String) {
        if self.trace_on && self.trace.len() < 3000 {
            let s = f();
            self.trace.push(format!("t={:>12.6}s {}", self.now as f64 / 1e6, s));
        }
    }
}

fn labels(s: &str) -> Vec<String> {
    s.split('.').map(|x| x.to_lowercase()).collect()
}

pub fn run(tape: &mut Tape, props: Props, thorough: bool, trace_on: bool) -> Outcome {
    let v6 = tape.draw(2) == 1;
    let mut cfg = NodeCfg::basic('V', Medium::Ip, 1500, 1, v6);
    cfg.seed = 9 + tape.draw(1 << 20);
    // dual-stack nodes reach both mDNS groups, i.e. two destinations with a fail-over in between
    let dual = tape.draw(3) == 2;
    if dual {
        let other = NodeCfg::basic('V', Medium::Ip, 1500, 1, !v6);
        cfg.addrs.push(other.addrs[0]);
    }
    // now and then the configured servers are off-link and there is no route: no query can ever be handed to the
    // device, and the queries must still end (time-out per server, then failure)
    // (on Ethernet, where a next hop has to be resolved first - Medium::Ip sends regardless; one time in three
    // the servers are on the link instead and simply never answer address resolution)
    let unreachable = match tape.draw(12) {
        11 | 10 => 2u8,
        9 => 1,
        _ => 0,
    };
    let unroutable = unreachable == 2;
    if unreachable != 0 {
        cfg.medium = Medium::Ethernet;
        cfg.mtu = 1514;
    }
    let mut node = build_node(&cfg);
    let view = cfg.view();
    let v = cfg.addrs[0].0;
    let mk = |i: u8| -> IpAddr {
        if v6 {
            let mut a = [0u8; 16];
            a[0] = 0xfd;
            if unroutable {
                a[0] = 0x20;
                a[1] = 0x01;
                a[2] = 0x0d;
                a[3] = 0xb8;
            }
            a[15] = i;
            IpAddr::V6(a)
        } else if unroutable {
            IpAddr::V4([192, 0, 2, i])
        } else {
            IpAddr::V4([10, 0, 0, i])
        }
    };
    // DNS_MAX_SERVER_COUNT is 1 in the shipped configuration; passing more exercises truncation
    let nserv = 1 + tape.draw(3) as usize;
    let servers: Vec<IpAddr> = (0..nserv).map(|i| mk(53 + i as u8)).collect();
    let smol_servers: Vec<smoltcp::wire::IpAddress> = servers.iter().map(to_smol).collect();
    let sock = dns::Socket::new(&smol_servers, vec![]);
    let h = node.sockets.add(sock);
    let desc = format!("dns dual-stack={} v6={} servers={:?} unreachable={}", dual, v6, servers, ["no", "on-link servers never resolve (Ethernet)", "off-link servers without a route (Ethernet)"][unreachable as usize]);
    let eth_mac = if unreachable != 0 { Some(cfg.mac) } else { None };
    let mut c = C { tape, props, node, view, now: 1_000_000, stats: Stats::default(), hash: LogHash::new(), trace: vec![], trace_on, events: 0, v, servers: servers[..1].to_vec(), h, qs: vec![], pending_rx: vec![], n_servers: nserv.min(cfg_value("DNS_MAX_SERVER_COUNT", 1)), all_servers: servers[..nserv.min(cfg_value("DNS_MAX_SERVER_COUNT", 1))].to_vec(), cur_servers: servers[..nserv.min(cfg_value("DNS_MAX_SERVER_COUNT", 1))].to_vec(), eth_mac, late_total: 0 };
    let mut r = body(&mut c, thorough);
    // "no response content can make processing panic or loop" is part of C19 itself
    if let Err(v) = &mut r {
        if v.prop == "C03" && c.props.has("C19") && !c.props.has("C03") {
            v.prop = "C19";
            v.sig = format!("C19.{}", v.sig);
        }
    }
    let nontrivial = c.stats.get("dns.responses-sent") >= 2 && c.stats.get("dns.queries-started") >= 1;
    c.stats.add("sim.seconds", (c.now / 1_000_000) as u64);
    Outcome { viol: r.err(), stats: c.stats, hash: c.hash, nontrivial, trace: c.trace, sim_us: c.now, events: c.events, cfg_desc: desc }
}

fn start_query(c: &mut C) -> Result<(), Violation> {
    let name = *c.tape.pick(&["host.example", "a.b.c.example.org", "x", "printer.local", "very-long-label-aaaaaaaaaaaaaaaaaaaaaaaaaaaaaaaaaaaaaaaaaaaaaaaaaaaa.example", "MiXeD.Example"]);
    let qt = if c.tape.draw(2) == 0 { DnsQueryType::A } else { DnsQueryType::Aaaa };
    let cx = c.node.iface.context();
    let s = c.node.sockets.get_mut::<dns::Socket>(c.h);
    let r = guard("dns::start_query", || s.start_query(cx, name, qt))?;
    if let Ok(handle) = r {
        c.stats.inc("dns.queries-started");
        c.qs.push(Q { handle, name: labels(name), qtype: if qt == DnsQueryType::A { T_A } else { T_AAAA }, started: c.now, done: false, mdns: name.ends_with(".local"), port: None, txid: None, justified: vec![], neg: false, last_tx: None, last_gap: None, tx_count: 0, dests: vec![], responses_delivered: 0, silent: false });
        if c.tape.draw(6) == 5 {
            c.qs.last_mut().unwrap().silent = true;
            c.stats.inc("dns.silent-server-queries");
        }
        let n = name.to_string();
        c.log(|| format!("start_query {} {:?}", n, qt));
    }
    Ok(())
}

fn poll(c: &mut C) -> Result<(), Violation> {
    c.events += 1;
    c.hash.u64(c.now as u64);
    let info = c.node.poll(c.now)?;
    for raw in &info.tx {
        c.hash.bytes(raw);
        c.stats.inc("frames.tx");
        let pkt = tap::check_frame(c.props, &c.view, raw, &mut c.stats)?;
        let Some(p) = pkt else { continue };
        let s = p.summary();
        c.log(|| format!("V tx {}", s));
        let Some((ip, u)) = p.udp() else { continue };
        if u.dport != 53 && u.dport != 5353 {
            continue;
        }
        let Ok(d) = dec_dns(&u.payload) else { continue };
        let Some(q) = d.questions.first() else { continue };
        // attribute the wire query to one of our queries
        let now = c.now;
        let mut which = c.qs.iter().position(|qq| !qq.done && qq.port == Some(u.sport) && qq.txid == Some(d.id));
        if which.is_none() {
            which = c.qs.iter().position(|qq| !qq.done && qq.port.is_none() && qq.name == q.name && qq.qtype == q.qtype);
        }
        if let Some(i) = which {
            let qq = &mut c.qs[i];
            qq.port = Some(u.sport);
            qq.txid = Some(d.id);
            if let Some(t) = qq.last_tx {
                let gap = now - t;
                // retransmissions back off: 1, 2, 4, 8, 10, 10 ... seconds (per server)
                if c.props.has("C19") && gap > 10_500_000 && c.late_total == 0 {
                    return Err(viol("C19", "retry-timing", "C19.timing/retransmission-gap-over-10s", format!("{} us between two transmissions of the same query", gap)));
                }
                qq.last_gap = Some(gap);
            }
            qq.last_tx = Some(now);
            qq.tx_count += 1;
            // fail-over: "moving to the next server after 10 s" - not earlier when nothing was heard
            if qq.dests.last().map(|d| d.0 != ip.dst).unwrap_or(true) {
                if let Some((prev, t0)) = qq.dests.last() {
                    if c.props.has("C19") && qq.responses_delivered == 0 && now - *t0 < 10_000_000 {
                        return Err(viol("C19", "failover", "C19.failover/next-server-before-10s", format!("query {:?} moved from {} to {} only {} us after its first transmission to the former, without any response", qq.name, prev, ip.dst, now - *t0)));
                    }
                }
                qq.dests.push((ip.dst, now));
            }
            c.stats.inc("dns.query-transmissions");
            // the scripted server reacts
            let (dst, qsrc) = (ip.dst, ip.src);
            respond(c, i, dst, qsrc, u.dport == 5353)?;
        }
    }
    Ok(())
}

/// Build the set of addresses a response justifies for query name qn (CNAME chain, any order).
fn justified_addrs(d: &Dns, qn: &[String]) -> Vec<Vec<u8>> {
    let mut names: Vec<Vec<String>> = vec![qn.to_vec()];
    // fixed point over CNAME targets
    for _ in 0..d.answers.len() + 1 {
        for r in &d.answers {
            if r.rtype == T_CNAME && names.contains(&r.name) {
                if let Some(t) = &r.target {
                    if !names.contains(t) {
                        names.push(t.clone());
                    }
                }
            }
        }
    }
    d.answers.iter().filter(|r| (r.rtype == T_A && r.rdata.len() == 4 || r.rtype == T_AAAA && r.rdata.len() == 16) && names.contains(&r.name)).map(|r| r.rdata.clone()).collect()
}

fn respond(c: &mut C, qi: usize, server: IpAddr, victim: IpAddr, mdns: bool) -> Result<(), Violation> {
    // an mDNS query goes to a multicast group: the responder answers from its own unicast address
    let server = if server.is_multicast() {
        match victim {
            IpAddr::V4(_) => IpAddr::V4([10, 0, 0, 77]),
            IpAddr::V6(_) => {
                let mut a = [0u8; 16];
                a[0] = 0xfd;
                a[15] = 77;
                IpAddr::V6(a)
            }
        }
    } else {
        server
    };
    if victim.is_unspecified() || victim.is_v4() != server.is_v4() {
        return Ok(());
    }
    let (name, qtype, port, txid) = {
        let q = &c.qs[qi];
        (q.name.clone(), q.qtype, q.port.unwrap(), q.txid.unwrap())
    };
    let kind = c.tape.draw(19); // 16..18: a plain valid answer
    if kind == 0 || kind == 1 || c.qs[qi].silent {
        c.stats.inc("dns.response-withheld");
        return Ok(());
    }
    // base: a valid matching response
    let mut d = Dns { id: txid, flags: 0x8180, questions: vec![DnsQ { name: name.clone(), qtype, qclass: 1 }], answers: vec![] };
    let n_ans = c.tape.range(1, 4);
    let mut chain_name = name.clone();
    for k in 0..n_ans {
        let rt = match c.tape.draw(6) {
            0 => T_CNAME,
            1 => 16,
            2 => {
                if qtype == T_A {
                    T_AAAA
                } else {
                    T_A
                }
            }
            _ => qtype,
        };
        let owner = match c.tape.draw(6) {
            0 => labels("unrelated.example"),
            _ => chain_name.clone(),
        };
        let (rdata, target) = match rt {
            T_A => (vec![192, 0, 2, 10 + k as u8], None),
            T_AAAA => {
                let mut a = vec![0x20, 0x01, 0x0d, 0xb8];
                a.extend_from_slice(&[0; 11]);
                a.push(10 + k as u8);
                (a, None)
            }
            T_CNAME => {
                let t = labels(&format!("alias{}.example", k));
                (vec![], Some(t))
            }
            _ => (b"\x04text".to_vec(), None),
        };
        if rt == T_CNAME && owner == chain_name {
            chain_name = target.clone().unwrap();
        }
        d.answers.push(DnsRr { name: owner, rtype: rt, class: 1, ttl: 60, rdata, target });
    }
    let mut src = server;
    let mut sport = if mdns { 5353 } else { 53 };
    let mut dport = port;
    let mut matching = true;
    let mut raw_edit: Option<u8> = None;
    match kind {
        2 => {
            d.id = txid.wrapping_add(1 + c.tape.draw(1000) as u16);
            matching = false;
        }
        3 => {
            dport = port.wrapping_add(1);
            matching = false;
        }
        4 => {
            sport = *c.tape.pick(&[54u16, 5354, 1053]);
            matching = false;
        }
        5 => {
            // not a configured server
            src = match server {
                IpAddr::V4(mut a) => {
                    a[3] = a[3].wrapping_add(100);
                    IpAddr::V4(a)
                }
                IpAddr::V6(mut a) => {
                    a[15] = a[15].wrapping_add(100);
                    IpAddr::V6(a)
                }
            };
            matching = mdns; // mDNS answers may come from anyone
        }
        6 => {
            d.questions[0].name = labels("someone.else.example");
            matching = false;
        }
        7 => {
            d.questions[0].qtype = if qtype == T_A { T_AAAA } else { T_A };
            matching = false;
        }
        8 => {
            d.questions.push(DnsQ { name: name.clone(), qtype, qclass: 1 });
            matching = false;
        }
        9 => {
            d.flags = 0x8183; // NXDomain
        }
        10 => raw_edit = Some(0), // truncation
        11 => raw_edit = Some(1), // pointer games
        12 => {
            d.flags = 0x0100; // not a response
            matching = false;
        }
        13 => {
            // a final CNAME record whose RDATA is a malformed name: a label short by one or more octets,
            // a lone pointer octet, an empty name, a pointer to a cut label at the very end of the message
            let rd: Vec<u8> = match c.tape.draw(7) {
                0 => vec![3, b'a', b'b'],
                1 => vec![5, b'a'],
                2 => vec![0xc0],
                3 => vec![],
                4 => vec![63],
                5 => vec![0xc0, 0xff, 3, b'a', b'b'], // patched below to point at the "3"
                _ => vec![1],
            };
            if rd.len() == 5 {
                raw_edit = Some(2);
            }
            let owner = if c.tape.draw(2) == 0 { name.clone() } else { chain_name.clone() };
            d.answers.push(DnsRr { name: owner, rtype: T_CNAME, class: 1, ttl: 60, rdata: rd, target: None });
            c.stats.inc("dns.response-malformed-cname-rdata");
        }
        _ => {}
    }
    let mut b = enc_dns(&d, c.tape.draw(2) == 0);
    if kind == 14 || kind == 15 {
        // hand-built matching responses that lean on name compression
        let mut v = vec![];
        v.extend_from_slice(&txid.to_be_bytes());
        v.extend_from_slice(&0x8180u16.to_be_bytes());
        v.extend_from_slice(&[0, 1, 0, 0, 0, 0, 0, 0]);
        v.extend_from_slice(&enc_name(&name));
        v.extend_from_slice(&qtype.to_be_bytes());
        v.extend_from_slice(&[0, 1]);
        let addr = |last: u8| -> Vec<u8> {
            if qtype == T_A {
                vec![6, 6, 6, last]
            } else {
                let mut a = vec![0x20, 0x01, 0x0d, 0xb8, 0x66];
                a.extend_from_slice(&[0; 10]);
                a.push(last);
                a
            }
        };
        let mut an = 0u16;
        let rr = |v: &mut Vec<u8>, owner: &[u8], rtype: u16, rdata: &[u8]| {
            v.extend_from_slice(owner);
            v.extend_from_slice(&rtype.to_be_bytes());
            v.extend_from_slice(&[0, 1, 0, 0, 0, 60]);
            v.extend_from_slice(&(rdata.len() as u16).to_be_bytes());
            v.extend_from_slice(rdata);
        };
        if kind == 14 {
            // longer than 1024 octets: TXT records of the queried name as filler, then a record of another name spelled
            // out at offset 1036 and one whose owner is a compression pointer to that offset (a 14-bit offset whose
            // low ten bits read 12 - where the question name sits). Neither answers the query.
            while v.len() + 12 + 200 <= 1036 - 12 - 13 {
                rr(&mut v, &[0xc0, 12], 16, &[199u8; 200]);
                an += 1;
            }
            let fill = 1036 - v.len() - 12;
            rr(&mut v, &[0xc0, 12], 16, &vec![(fill - 1).min(255) as u8; fill]);
            an += 1;
            let other = enc_name(&labels("other.example"));
            let at = v.len();
            rr(&mut v, &other, qtype, &addr(7));
            rr(&mut v, &[0xc0 | (at >> 8) as u8, at as u8], qtype, &addr(8));
            an += 2;
            c.stats.inc(if at == 1036 { "dns.response-with-a-pointer-beyond-offset-1023" } else { "dns.response-long" });
        } else {
            // a chain of two pointers, the second one pointing forwards: the owner of the last record points at two
            // octets inside the TXT record's data, which point on to the address record's data further down
            let txt_at = v.len();
            rr(&mut v, &[0xc0, 12], 16, &[0u8; 8]);
            let inner = txt_at + 12 + 2; // third octet of the TXT data
            rr(&mut v, &[0xc0, 12], qtype, &addr(9));
            let fwd = v.len() - 3;
            v[inner] = 0xc0 | (fwd >> 8) as u8;
            v[inner + 1] = fwd as u8;
            rr(&mut v, &[0xc0 | (inner >> 8) as u8, inner as u8], qtype, &addr(10));
            an += 3;
            c.stats.inc("dns.response-with-a-forward-pointer-chain");
        }
        v[6] = (an >> 8) as u8;
        v[7] = an as u8;
        b = v;
    }
    if raw_edit == Some(2) {
        // the pointer in the last RDATA points at the cut label that ends the message
        let at = b.len() - 5;
        let target = b.len() - 3;
        b[at] = 0xc0 | (target >> 8) as u8;
        b[at + 1] = target as u8;
        raw_edit = None;
    }
    match raw_edit {
        Some(0) => {
            let cut = c.tape.draw(b.len() as u64) as usize;
            b.truncate(cut);
            c.stats.inc("dns.response-truncated");
        }
        Some(_) => {
            // overwrite a label-length byte with a compression pointer: backward, forward or self
            if b.len() > 14 {
                let at = 12 + c.tape.draw((b.len() - 13) as u64) as usize;
                let target = match c.tape.draw(3) {
                    0 => 12,
                    1 => at,
                    _ => (at + 2 + c.tape.draw(8) as usize).min(b.len() - 1),
                };
                b[at] = 0xc0 | (target >> 8) as u8;
                b[at + 1] = target as u8;
                c.stats.inc("dns.response-pointer-games");
            }
        }
        None => {}
    }
    // what does this datagram justify? judged from the bytes as sent with the independent,
    // deliberately lenient decoder (an over-approximation of what a resolver may take from it)
    let mut just = None;
    let mut neg = false;
    if matching {
        if let Some(dd) = dec_dns_lenient(&b) {
            let qok = dd.qdcount == 1 && dd.qname.as_ref() == Some(&name) && dd.qtype == qtype && dd.id == txid && dd.flags & 0x8000 != 0;
            if qok {
                if dd.flags & 0xf == 3 {
                    neg = true;
                } else {
                    let mut names: Vec<Vec<String>> = vec![name.clone()];
                    for _ in 0..dd.records.len() + 1 {
                        for (n, t, _, tg) in &dd.records {
                            if *t == T_CNAME {
                                if let (Some(n), Some(tg)) = (n, tg) {
                                    if names.contains(n) && !names.contains(tg) {
                                        names.push(tg.clone());
                                    }
                                }
                            }
                        }
                    }
                    let addrs: Vec<Vec<u8>> = dd.records.iter().filter(|(n, t, d, _)| ((*t == T_A && d.len() == 4) || (*t == T_AAAA && d.len() == 16)) && n.as_ref().map(|n| names.contains(n)).unwrap_or(false)).map(|(_, _, d, _)| d.clone()).collect();
                    just = Some(addrs);
                }
            }
        }
    }
    let udp = enc_udp(&src, &victim, sport, dport, &b);
    let ip = enc_ip(&src, &victim, P_UDP, 64, &udp);
    let delay = *c.tape.pick(&[1_000i64, 100, 50_000, 900_000, 3_000_000, 12_000_000]);
    let dup = c.tape.draw(8) == 0;
    c.stats.inc("dns.responses-sent");
    if matching {
        c.stats.inc("dns.responses-matching");
    }
    let hx = crate::tap::hex(&b);
    let de = dec_dns(&b).err();
    c.log(|| format!("server: response kind {} matching={} delay={}us just={:?} decode_err={:?} dns={}", kind, matching, delay, just.as_ref().map(|j| j.len()), de, hx));
    c.pending_rx.push((c.now + delay, ip.clone()));
    if dup {
        c.pending_rx.push((c.now + delay + 500_000, ip));
    }
    // record the justification at delivery time (kept with the frame via a side list)
    JUST.with(|j| j.borrow_mut().push((c.now + delay, qi, just.clone(), neg)));
    if dup {
        JUST.with(|j| j.borrow_mut().push((c.now + delay + 500_000, qi, just, neg)));
    }
    Ok(())
}

thread_local! {
    static JUST: std::cell::RefCell<Vec<(i64, usize, Option<Vec<Vec<u8>>>, bool)>> = const { std::cell::RefCell::new(Vec::new()) };
}

fn check_results(c: &mut C) -> Result<(), Violation> {
    for i in 0..c.qs.len() {
        if c.qs[i].done {
            continue;
        }
        let handle = c.qs[i].handle;
        let s = c.node.sockets.get_mut::<dns::Socket>(c.h);
        let r = guard("dns::get_query_result", || s.get_query_result(handle))?;
        match r {
            Err(dns::GetQueryResultError::Pending) => {
                // termination bound
                let q = &c.qs[i];
                // per destination: transmissions at 0, 1, 3, 7 s and the 10 s time-out (acted upon at the next
                // wake-up); destinations = configured servers the build keeps, or the two mDNS groups
                let dests = if q.mdns { 2 } else { c.n_servers.max(1) } as i64;
                // (while a server cannot be reached at the link layer the socket works its queries off one after the
                // other - a failing emit ends the dispatch pass - so the time-outs of concurrent queries add up)
                let serial = if c.eth_mac.is_some() { c.qs.len() as i64 } else { 1 };
                let bound = serial * dests * 15_000_000 + 25_000_000 + c.late_total;
                if c.props.has("C19") && c.now - q.started > bound {
                    return Err(viol("C19", "termination", "C19.termination/query-still-pending", format!("query {:?} still pending {} s after it was started (polled per poll_at)", q.name, (c.now - q.started) / 1_000_000)));
                }
            }
            Ok(addrs) => {
                c.qs[i].done = true;
                c.stats.inc("dns.completed-ok");
                if !c.props.has("C19") {
                    continue;
                }
                let got: Vec<Vec<u8>> = addrs.iter().map(|a| from_smol(a).bytes().to_vec()).collect();
                let q = &c.qs[i];
                let ok = q.justified.iter().any(|j| got.iter().all(|a| j.contains(a))) && !got.is_empty();
                if !ok {
                    return Err(viol(
                        "C19",
                        "matching-response",
                        if q.justified.is_empty() { "C19.result/completed-without-matching-response" } else { "C19.result/addresses-not-in-matching-response" },
                        format!("query {:?} type {} completed with {:?} but the matching responses delivered so far justify {:?}", q.name, q.qtype, got, q.justified),
                    ));
                }
            }
            Err(dns::GetQueryResultError::Failed) => {
                c.qs[i].done = true;
                c.stats.inc("dns.completed-failed");
                // a query that heard nothing fails by time-out only: not before its last server had its 10 s
                let q = &c.qs[i];
                if c.props.has("C19") && q.responses_delivered == 0 {
                    if let Some((d, t0)) = q.dests.last() {
                        if c.now - *t0 < 10_000_000 {
                            return Err(viol("C19", "failover", "C19.failover/failed-before-10s-on-last-server", format!("query {:?} failed {} us after its first transmission to {} (destinations used: {:?}) without any response having arrived", q.name, c.now - *t0, d, q.dests)));
                        }
                    }
                    c.stats.inc("dns.failed-by-timeout-checked");
                }
            }
        }
    }
    Ok(())
}

fn body(c: &mut C, thorough: bool) -> Result<(), Violation> {
    JUST.with(|j| j.borrow_mut().clear());
    let nq = c.tape.range(1, 3);
    for _ in 0..nq {
        start_query(c)?;
    }
    let horizon = c.now + if thorough { 200_000_000 } else { 90_000_000 } + if c.eth_mac.is_some() { 6 * 15_000_000 * c.n_servers.max(2) as i64 } else { 0 };
    let mut extra_queries = c.tape.draw(3);
    let mut steps = 0;
    let mut idle = 0u32;
    let mut stuck = 0u32;
    loop {
        steps += 1;
        if steps > 600 {
            break;
        }
        // the application replaces the server list now and then (shorter, longer, empty) while queries are pending
        if c.tape.draw(40) == 39 {
            let all = c.all_servers.clone();
            let k = c.tape.draw(all.len() as u64 + 1) as usize;
            let subset: Vec<smoltcp::wire::IpAddress> = all.iter().take(k).map(to_smol).collect();
            let h = c.h;
            let s = c.node.sockets.get_mut::<dns::Socket>(h);
            guard("dns::update_servers", || s.update_servers(&subset))?;
            c.cur_servers = all.iter().take(k).cloned().collect();
            c.stats.inc("dns.servers-updated");
            // the fail-over timing clauses speak about an unchanged server list
            for q in c.qs.iter_mut().filter(|q| !q.done) {
                q.responses_delivered += 1;
            }
        }
        let tx_before_poll = c.stats.get("frames.tx");
        poll(c)?;
        check_results(c)?;
        if c.qs.iter().all(|q| q.done) {
            if extra_queries > 0 {
                extra_queries -= 1;
                c.now += c.tape.range(0, 3_000_000) as i64;
                start_query(c)?;
                continue;
            }
            break;
        }
        // next instant: the interface's deadline or the next server datagram, whichever is first
        let d = c.node.poll_at(c.now)?;
        c.pending_rx.sort_by_key(|x| x.0);
        let next_rx = c.pending_rx.first().map(|x| x.0);
        let next = match (d, next_rx) {
            (Some(a), Some(b)) => a.min(b),
            (Some(a), None) => a,
            (None, Some(b)) => b,
            (None, None) => {
                // nothing will ever happen: pending queries would hang
                if c.props.has("C19") && c.qs.iter().any(|q| !q.done) {
                    return Err(viol("C19", "termination", "C19.termination/no-deadline-with-pending-query", "a query is pending but poll_at returns None and no datagram is in flight".to_string()));
                }
                break;
            }
        };
        // C19: polled according to poll_at, a pending query must make progress: a deadline that stays in the past
        // while nothing is sent or received starves the query (time cannot advance in such an event loop)
        if c.props.has("C19") && !c.props.has("C13") {
            if next <= c.now && c.stats.get("frames.tx") == tx_before_poll {
                stuck += 1;
                if stuck >= 50 {
                    return Err(viol("C19", "termination", "C19.termination/deadline-stays-in-the-past-without-progress", format!("{} consecutive polls at t={} us sent and received nothing while poll_at keeps returning {:?}; pending queries: {:?}", stuck, c.now, d, c.qs.iter().filter(|q| !q.done).map(|q| (q.name.clone(), q.tx_count)).collect::<Vec<_>>())));
                }
            } else {
                stuck = 0;
            }
        }
        // C13: an extra poll strictly before that instant (no datagram delivered, no socket call) transmits
        // nothing; a poll that moved nothing is followed by a later deadline
        if c.props.has("C13") {
            if next <= c.now {
                idle += 1;
                if idle >= 4 && c.stats.get("frames.tx") == tx_before_poll && d.map(|t| t <= c.now).unwrap_or(false) {
                    return Err(viol("C13", "no-spin", "C13.spin/dns-resolver", format!("after {} consecutive polls at t={} us that moved no frame, poll_at still returns {:?}", idle, c.now, d)));
                }
            } else {
                idle = 0;
                if next > c.now + 1 && c.tape.draw(3) == 0 {
                    let t = if c.tape.draw(4) == 0 { next - 1 } else { c.now + 1 + c.tape.draw((next - c.now - 1) as u64) as i64 };
                    let before = c.stats.get("frames.tx");
                    let save = c.now;
                    c.now = t;
                    poll(c)?;
                    c.stats.inc("c13.early-probes");
                    if c.stats.get("frames.tx") > before {
                        return Err(viol("C13", "sufficiency", "C13.early-tx/dns-resolver", format!("poll_at at t={} us returned {:?}; an extra poll at t={} us with nothing delivered in between transmitted a frame", save, d, t)));
                    }
                    check_results(c)?;
                    continue;
                }
            }
        }
        c.now = next.max(c.now);
        // a stalled application polls late now and then - by milliseconds or by more than a whole time-out
        if c.tape.draw(16) == 0 {
            let late = *c.tape.pick(&[1_000i64, 500_000, 5_000_000, 15_000_000, 40_000_000]);
            c.now += late;
            c.late_total += late;
            c.stats.inc("sched.late-poll");
        }
        if c.now > horizon + c.late_total {
            break;
        }
        // deliver what is due
        while let Some((t, _)) = c.pending_rx.first() {
            if *t > c.now {
                break;
            }
            let (t, f) = c.pending_rx.remove(0);
            // bookkeeping: this delivery justifies ...
            let js: Vec<(usize, Option<Vec<Vec<u8>>>, bool)> = JUST.with(|j| {
                let mut v = j.borrow_mut();
                let mut out = vec![];
                let mut k = 0;
                while k < v.len() {
                    if v[k].0 == t {
                        let e = v.remove(k);
                        out.push((e.1, e.2, e.3));
                        break;
                    } else {
                        k += 1;
                    }
                }
                out
            });
            // a unicast response counts only if it comes from a server that is configured when it arrives
            let (fsrc, fsport) = if f[0] >> 4 == 4 {
                let ihl = (f[0] & 0xf) as usize * 4;
                (IpAddr::V4([f[12], f[13], f[14], f[15]]), u16::from_be_bytes([f[ihl], f[ihl + 1]]))
            } else {
                let mut a = [0u8; 16];
                a.copy_from_slice(&f[8..24]);
                (IpAddr::V6(a), u16::from_be_bytes([f[40], f[41]]))
            };
            let from_configured = fsport == 5353 || c.cur_servers.contains(&fsrc);
            if !from_configured && !js.is_empty() {
                c.stats.inc("dns.responses-from-a-server-no-longer-configured");
            }
            for (qi, just, neg) in js {
                c.qs[qi].responses_delivered += 1;
                if !from_configured {
                    continue;
                }
                if let Some(j) = just {
                    c.qs[qi].justified.push(j);
                }
                if neg {
                    c.qs[qi].neg = true;
                }
            }
            let f = match c.eth_mac {
                Some(mac) => enc_eth(mac, [2, 0, 0, 0, 0, 0x99], if f[0] >> 4 == 4 { ETH_IPV4 } else { ETH_IPV6 }, &f),
                None => f,
            };
            c.hash.bytes(&f);
            c.node.dev.rx.push_back(f);
            c.stats.inc("frames.delivered");
        }
    }
    Ok(())
}
