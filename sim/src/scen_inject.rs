//! C11: one real node + packet injector. One valid packet at a time from the table
//! protocol x L2 destination class x IP destination class x IP source class x port relation,
//! delivered alone; verdict from an independent restatement of the rule table.

use crate::codec::*;
use crate::codec6lo::*;
use crate::core::*;
use crate::mk::*;
use crate::tap::{self, NodeView};
use crate::tape::{LogHash, Tape};
use smoltcp::iface::SocketHandle;
use smoltcp::socket::{dns, icmp, raw, tcp, udp};
use smoltcp::wire::{DnsQueryType, IpListenEndpoint, IpProtocol, IpVersion};

const V_MAC: [u8; 6] = [2, 0, 0, 0, 0, 1];
const V_MAC_2: [u8; 6] = [2, 0, 0, 0, 0, 0x77];
const V_LL8_2: [u8; 8] = [2, 0, 0, 0, 0, 0, 0, 0x77];
const P_MAC: [u8; 6] = [2, 0, 0, 0, 0, 2];
const V_LL8: [u8; 8] = [2, 0, 0, 0, 0, 0, 0, 1];
const P_LL8: [u8; 8] = [2, 0, 0, 0, 0, 0, 0, 2];
const PAN: u16 = 0xbeef;

#[derive(Clone, Copy, Debug, PartialEq, Eq)]
enum DstClass {
    Own,
    OtherOnLink,
    OtherOffLink,
    SubnetBroadcast,
    LimitedBroadcast,
    AllNodes,
    OwnSolicited,
    ForeignSolicited,
    JoinedGroup,
    UnjoinedGroup,
    Unspecified,
    Loopback,
    /// an address that shares the low 16 bits with ours (regression probe for sloppy matching)
    LookalikeUnicast,
    /// second IPv4 address / subnet of the interface (two-subnet configurations only)
    Own2,
    SubnetBroadcast2,
}
#[derive(Clone, Copy, Debug, PartialEq, Eq)]
enum SrcClass {
    OnLink,
    OffLink,
    Broadcast,
    Multicast,
    Unspecified,
    Loopback,
    Own,
    /// host on / directed broadcast of the second IPv4 subnet
    OnLink2,
    Broadcast2,
}
#[derive(Clone, Copy, Debug, PartialEq, Eq)]
enum L2Class {
    Own,
    OtherUnicast,
    Broadcast,
    Multicast,
    OtherPan,
    /// foreign PAN, link-layer broadcast destination 0xffff
    OtherPanBroadcast,
    BroadcastPan,
    /// no destination PAN id and address at all (source addressing only), source in a foreign PAN / in ours: such
    /// frames are for a PAN coordinator, which the node is not
    NoDstForeignSrcPan,
    NoDstOwnSrcPan,
}

enum Sk {
    Tcp(SocketHandle),
    Udp(SocketHandle, u16, Option<IpAddr>),
    Icmp(SocketHandle),
    /// ICMP socket bound to a UDP port: receives ICMP errors that quote a UDP datagram sent from that port
    IcmpUdp(SocketHandle, u16),
    Dns(SocketHandle),
    Raw(SocketHandle),
}

struct Inj<'a> {
    tape: &'a mut Tape,
    props: Props,
    node: Node,
    view: NodeView,
    medium: Medium,
    now: i64,
    stats: Stats,
    hash: LogHash,
    trace: Vec<String>,
    trace_on: bool,
    events: u64,
    socks: Vec<Sk>,
    v4: Option<[u8; 4]>,
    v6: [u8; 16],
    joined4: bool,
    joined6: bool,
    has_raw: bool,
    seq154: u8,
    /// the interface has two IPv4 subnets (10.0.0.1/24 and 172.16.5.1/16) and no IPv6 address
    two_v4: bool,
    /// TCP listener bound to a specific address
    bound_listener: Option<(SocketHandle, IpAddr)>,
    /// forced upcoming TCP injections, last first: (destination class, flags, sequence number)
    script: Vec<(DstClass, u8, u32)>,
    /// the application gave the interface another hardware address mid-run (`set_hardware_addr`): frames for the
    /// old one are then frames for another station
    hw_changed: bool,
    /// directed broadcast address of the first IPv4 subnet (prefix length varies per run)
    bc1: [u8; 4],
}

fn a6(b0: u8, b1: u8, last2: [u8; 2]) -> [u8; 16] {
    let mut a = [0u8; 16];
    a[0] = b0;
    a[1] = b1;
    a[14] = last2[0];
    a[15] = last2[1];
    a
}

impl<'a> Inj<'a> {
    fn log(&mut self, f: impl FnOnce() -> String) {
        if self.trace_on && self.trace.len() < 3000 {
            let s = f();
            self.trace.push(format!("t={:>12.6}s {}", self.now as f64 / 1e6, s));
        }
    }
    fn snapshot(&self) -> (String, String) {
        // (tcp sockets rendering, all-socket rendering incl. queues)
        let mut t = String::new();
        let mut all = String::new();
        for s in &self.socks {
            match s {
                Sk::Tcp(h) => {
                    let d = crate::scen_tcp::strip_storage(&format!("{:?}", self.node.sockets.get::<tcp::Socket>(*h)));
                    t += &d;
                    all += &d;
                }
                Sk::Udp(h, _, _) => all += &format!("{:?}", self.node.sockets.get::<udp::Socket>(*h)),
                Sk::Icmp(h) => all += &format!("{:?}", self.node.sockets.get::<icmp::Socket>(*h)),
                Sk::IcmpUdp(h, _) => all += &format!("{:?}", self.node.sockets.get::<icmp::Socket>(*h)),
                Sk::Dns(h) => all += &format!("{:?}", self.node.sockets.get::<dns::Socket>(*h)),
                Sk::Raw(h) => {
                    let _ = h;
                }
            }
        }
        (t, all)
    }
    fn dst_addr(&mut self, c: DstClass, v6: bool) -> IpAddr {
        if v6 {
            let own = self.v6;
            IpAddr::V6(match c {
                DstClass::Own | DstClass::Own2 => own,
                DstClass::SubnetBroadcast2 => a6(0xff, 0x02, [0, 1]),
                DstClass::OtherOnLink => {
                    let mut a = own;
                    a[15] = 9;
                    a
                }
                DstClass::OtherOffLink => a6(0x20, 0x01, [0, 9]),
                DstClass::SubnetBroadcast | DstClass::LimitedBroadcast => a6(0xff, 0x02, [0, 1]),
                DstClass::AllNodes => a6(0xff, 0x02, [0, 1]),
                DstClass::OwnSolicited => IpAddr::V6(own).solicited_node().v6(),
                DstClass::ForeignSolicited => {
                    // the solicited-node group of another address: one that differs in all of the 24 bits the group
                    // is formed from, or in the first of them only
                    let mut o = own;
                    if self.tape.draw(2) == 0 {
                        o[13] = 0x77;
                        o[15] = 0x33;
                    } else {
                        o[13] ^= 0x80;
                    }
                    IpAddr::V6(o).solicited_node().v6()
                }
                DstClass::JoinedGroup => a6(0xff, 0x02, [0, 0x42]),
                DstClass::UnjoinedGroup => a6(0xff, 0x02, [0x12, 0x34]),
                DstClass::Unspecified => [0; 16],
                DstClass::Loopback => a6(0, 0, [0, 1]),
                DstClass::LookalikeUnicast => {
                    let mut a = own;
                    a[0] = 0x20;
                    a[1] = 0x01;
                    a[8] = 0xaa;
                    a
                }
            })
        } else {
            IpAddr::V4(match c {
                DstClass::Own => self.v4.unwrap(),
                DstClass::OtherOnLink => [10, 0, 0, 9],
                DstClass::OtherOffLink => [192, 0, 2, 9],
                DstClass::SubnetBroadcast => self.bc1,
                DstClass::LimitedBroadcast => [255, 255, 255, 255],
                DstClass::AllNodes => [224, 0, 0, 1],
                DstClass::OwnSolicited | DstClass::JoinedGroup => [224, 0, 0, 66],
                DstClass::ForeignSolicited | DstClass::UnjoinedGroup => [224, 0, 0, 77],
                DstClass::Unspecified => [0, 0, 0, 0],
                DstClass::Loopback => [127, 0, 0, 1],
                DstClass::LookalikeUnicast => [172, 17, 0, 1],
                DstClass::Own2 => if self.two_v4 { [172, 16, 5, 1] } else { self.v4.unwrap() },
                DstClass::SubnetBroadcast2 => if self.two_v4 { [172, 16, 255, 255] } else { self.bc1 },
            })
        }
    }
    fn src_addr(&mut self, c: SrcClass, v6: bool) -> IpAddr {
        if v6 {
            let mut on = self.v6;
            on[15] = 2;
            IpAddr::V6(match c {
                SrcClass::OnLink => on,
                SrcClass::OffLink => a6(0x20, 0x01, [0, 7]),
                SrcClass::Broadcast | SrcClass::Multicast => a6(0xff, 0x02, [0, 1]),
                SrcClass::Unspecified => [0; 16],
                SrcClass::Loopback => a6(0, 0, [0, 1]),
                SrcClass::Own => self.v6,
                SrcClass::OnLink2 => on,
                SrcClass::Broadcast2 => a6(0xff, 0x02, [0, 1]),
            })
        } else {
            IpAddr::V4(match c {
                SrcClass::OnLink => [10, 0, 0, 2],
                SrcClass::OffLink => [192, 0, 2, 7],
                SrcClass::Broadcast => self.bc1,
                SrcClass::Multicast => [224, 0, 0, 5],
                SrcClass::Unspecified => [0, 0, 0, 0],
                SrcClass::Loopback => [127, 0, 0, 1],
                SrcClass::Own => self.v4.unwrap(),
                SrcClass::OnLink2 => if self.two_v4 { [172, 16, 5, 2] } else { [10, 0, 0, 2] },
                SrcClass::Broadcast2 => if self.two_v4 { [172, 16, 255, 255] } else { self.bc1 },
            })
        }
    }
    fn wrap(&mut self, ip: Vec<u8>, l2: L2Class) -> Vec<u8> {
        match self.medium {
            Medium::Ip => ip,
            Medium::Ethernet => {
                let dst = match l2 {
                    L2Class::Own if self.hw_changed => V_MAC_2,
                    L2Class::Own => V_MAC,
                    L2Class::OtherUnicast if self.hw_changed => V_MAC,
                    L2Class::OtherUnicast => [2, 0, 0, 0, 0, 0x55],
                    L2Class::Broadcast => [0xff; 6],
                    _ => [0x33, 0x33, 0, 0, 0, 1],
                };
                let et = if ip[0] >> 4 == 4 { ETH_IPV4 } else { ETH_IPV6 };
                enc_eth(dst, P_MAC, et, &ip)
            }
            Medium::Ieee802154 => {
                let (pan, dst) = match l2 {
                    L2Class::Own if self.hw_changed => (PAN, Addr154::Ext(V_LL8_2)),
                    L2Class::Own => (PAN, Addr154::Ext(V_LL8)),
                    L2Class::OtherUnicast if self.hw_changed => (PAN, Addr154::Ext(V_LL8)),
                    L2Class::OtherUnicast => (PAN, Addr154::Ext([2, 0, 0, 0, 0, 0, 0, 0x55])),
                    L2Class::Broadcast | L2Class::Multicast => (PAN, Addr154::Short([0xff, 0xff])),
                    L2Class::OtherPan => (0x1234, Addr154::Ext(if self.hw_changed { V_LL8_2 } else { V_LL8 })),
                    L2Class::OtherPanBroadcast => (0x1234, Addr154::Short([0xff, 0xff])),
                    L2Class::BroadcastPan => (0xffff, Addr154::Ext(if self.hw_changed { V_LL8_2 } else { V_LL8 })),
                    L2Class::NoDstForeignSrcPan => (0x1234, Addr154::Absent),
                    L2Class::NoDstOwnSrcPan => (PAN, Addr154::Absent),
                };
                self.seq154 = self.seq154.wrapping_add(1);
                let src = Addr154::Ext(P_LL8);
                let comp = enc_iphc(&ip, &src, &dst, &IphcOpts { tf: 3, sam: 0, dam: 0, hlim_inline: true, nhc_udp: false, udp_elide_checksum: false });
                if dst == Addr154::Absent {
                    let mut f = data_frame(self.seq154, pan, dst, src, comp);
                    f.dst_pan = None;
                    f.pan_comp = false;
                    f.src_pan = Some(pan);
                    return enc_154(&f);
                }
                enc_154(&data_frame(self.seq154, pan, dst, src, comp))
            }
        }
    }
}

pub fn run(tape: &mut Tape, props: Props, thorough: bool, trace_on: bool) -> Outcome {
    let medium = match tape.draw(3) {
        0 => Medium::Ip,
        1 => Medium::Ethernet,
        _ => Medium::Ieee802154,
    };
    let mtu = match medium {
        Medium::Ip => 1500,
        Medium::Ethernet => 1514,
        Medium::Ieee802154 => 127,
    };
    let mut cfg = NodeCfg::basic('V', medium, mtu, 1, false);
    cfg.seed = 77 + tape.draw(1 << 16);
    let v6addr: [u8; 16] = if medium == Medium::Ip { a6(0xfd, 0, [0, 1]) } else { a6(0xfe, 0x80, [0, 1]) };
    let v4 = if medium == Medium::Ieee802154 { None } else { Some([10, 0, 0, 1]) };
    let two_v4 = v4.is_some() && tape.draw(3) == 2;
    // prefix length of the first IPv4 subnet: mostly /24, also the narrowest subnet that still has a broadcast
    // address (/30: 10.0.0.3) and wider ones
    let plen1: u8 = if v4.is_some() { *tape.pick(&[24u8, 24, 24, 30, 28, 16, 29]) } else { 24 };
    let bc1: [u8; 4] = {
        let mask = u32::MAX << (32 - plen1 as u32);
        ((u32::from_be_bytes([10, 0, 0, 1]) & mask) | !mask).to_be_bytes()
    };
    cfg.addrs = match v4 {
        Some(a) if two_v4 => vec![(IpAddr::V4(a), plen1), (IpAddr::V4([172, 16, 5, 1]), 16)],
        Some(a) => vec![(IpAddr::V4(a), plen1), (IpAddr::V6(v6addr), 64)],
        None => vec![(IpAddr::V6(v6addr), 64)],
    };
    let mut node = build_node(&cfg);
    let view = cfg.view();
    let mut socks = vec![];
    let mk_tcp = || tcp::Socket::new(tcp::SocketBuffer::new(vec![0; 512]), tcp::SocketBuffer::new(vec![0; 512]));
    // listener on any address, listener bound to an address
    let with_listeners = tape.draw(4) != 0;
    let mut bound_listener = None;
    if with_listeners {
        let mut l = mk_tcp();
        l.listen(80).unwrap();
        socks.push(Sk::Tcp(node.sockets.add(l)));
        let mut l2 = mk_tcp();
        let bound = v4.map(IpAddr::V4).unwrap_or(IpAddr::V6(v6addr));
        l2.listen(IpListenEndpoint { addr: Some(to_smol(&bound)), port: 81 }).unwrap();
        let h2 = node.sockets.add(l2);
        bound_listener = Some((h2, bound));
        socks.push(Sk::Tcp(h2));
    }
    // UDP: port only; address + port
    let with_udp = tape.draw(4) != 0;
    if with_udp {
        let mk = || udp::Socket::new(udp::PacketBuffer::new(vec![udp::PacketMetadata::EMPTY; 4], vec![0u8; 512]), udp::PacketBuffer::new(vec![udp::PacketMetadata::EMPTY; 2], vec![0u8; 256]));
        let mut u1 = mk();
        u1.bind(7000).unwrap();
        socks.push(Sk::Udp(node.sockets.add(u1), 7000, None));
        let mut u2 = mk();
        let bound = v4.map(IpAddr::V4).unwrap_or(IpAddr::V6(v6addr));
        u2.bind(IpListenEndpoint { addr: Some(to_smol(&bound)), port: 7001 }).unwrap();
        socks.push(Sk::Udp(node.sockets.add(u2), 7001, Some(bound)));
        // a socket that was never bound and one that was closed again: port 0 in this model, nothing may reach them
        socks.push(Sk::Udp(node.sockets.add(mk()), 0, None));
        let mut u4 = mk();
        u4.bind(7002).unwrap();
        u4.close();
        socks.push(Sk::Udp(node.sockets.add(u4), 0, None));
    }
    let mut ic = icmp::Socket::new(icmp::PacketBuffer::new(vec![icmp::PacketMetadata::EMPTY; 4], vec![0u8; 512]), icmp::PacketBuffer::new(vec![icmp::PacketMetadata::EMPTY; 2], vec![0u8; 256]));
    ic.bind(icmp::Endpoint::Ident(0x2222)).unwrap();
    // (a second bind on the open socket is refused and must leave the first one in force)
    if tape.draw(2) == 0 {
        let _ = ic.bind(icmp::Endpoint::Udp(IpListenEndpoint { addr: None, port: 7000 }));
    }
    socks.push(Sk::Icmp(node.sockets.add(ic)));
    // (port 257 = 0x0101: what the first two octets of an IPv4 options field full of NOPs read as)
    let mut icu = icmp::Socket::new(icmp::PacketBuffer::new(vec![icmp::PacketMetadata::EMPTY; 4], vec![0u8; 1024]), icmp::PacketBuffer::new(vec![icmp::PacketMetadata::EMPTY; 2], vec![0u8; 256]));
    icu.bind(icmp::Endpoint::Udp(IpListenEndpoint { addr: None, port: 257 })).unwrap();
    socks.push(Sk::IcmpUdp(node.sockets.add(icu), 257));
    let servers = [to_smol(&v4.map(|_| IpAddr::V4([10, 0, 0, 2])).unwrap_or_else(|| {
        let mut s = v6addr;
        s[15] = 2;
        IpAddr::V6(s)
    }))];
    let mut d = dns::Socket::new(&servers, vec![]);
    {
        let cx = node.iface.context();
        let _ = d.start_query(cx, "host.example", DnsQueryType::A);
    }
    socks.push(Sk::Dns(node.sockets.add(d)));
    let has_raw = medium != Medium::Ieee802154 && tape.draw(4) == 0;
    if has_raw {
        for ver in [IpVersion::Ipv4, IpVersion::Ipv6] {
            let r = raw::Socket::new(Some(ver), Some(IpProtocol::Udp), raw::PacketBuffer::new(vec![raw::PacketMetadata::EMPTY; 4], vec![0u8; 1024]), raw::PacketBuffer::new(vec![raw::PacketMetadata::EMPTY; 1], vec![0u8; 64]));
            socks.push(Sk::Raw(node.sockets.add(r)));
        }
    }
    let joined4 = v4.is_some() && tape.draw(2) == 0;
    if joined4 {
        let _ = node.iface.join_multicast_group(smoltcp::wire::Ipv4Address::new(224, 0, 0, 66));
    }
    let joined6 = medium != Medium::Ieee802154 && tape.draw(2) == 0;
    if joined6 {
        let _ = node.iface.join_multicast_group(smoltcp::wire::Ipv6Address::new(0xff02, 0, 0, 0, 0, 0, 0, 0x42));
    }
    let desc = format!("injector medium={:?} /{} two-ipv4-subnets={} listeners={} udp={} raw={} joined4={} joined6={}", medium, plen1, two_v4, with_listeners, with_udp, has_raw, joined4, joined6);
    let mut c = Inj { tape, props, node, view, medium, now: 1_000_000, stats: Stats::default(), hash: LogHash::new(), trace: vec![], trace_on, events: 0, socks, v4, v6: v6addr, joined4, joined6, has_raw, seq154: 0, two_v4, bound_listener, script: vec![], hw_changed: false, bc1 };
    let r = body(&mut c, thorough);
    let nontrivial = c.stats.get("inj.packets") >= 5 && c.stats.get("inj.not-for-us") >= 1;
    c.stats.add("sim.seconds", (c.now / 1_000_000) as u64);
    Outcome { viol: r.err(), stats: c.stats, hash: c.hash, nontrivial, trace: c.trace, sim_us: c.now, events: c.events, cfg_desc: desc }
}

fn emitted(c: &mut Inj, info: &PollInfo) -> Result<Vec<Packet>, Violation> {
    let mut out = vec![];
    for raw in &info.tx {
        c.hash.bytes(raw);
        c.stats.inc("frames.tx");
        let pkt = match c.medium {
            Medium::Ieee802154 => decode_frame_154(raw, &vec![], &Verify::none()).ok().and_then(|x| x.1),
            _ => tap::check_frame(c.props, &c.view, raw, &mut c.stats)?,
        };
        if let Some(p) = pkt {
            let s = p.summary();
            c.log(|| format!("V tx {}", s));
            out.push(p);
        }
    }
    Ok(out)
}

fn body(c: &mut Inj, thorough: bool) -> Result<(), Violation> {
    // warm up: initial egress (DNS query, MLD/IGMP reports, neighbour solicitations)
    let info = c.node.poll(c.now)?;
    emitted(c, &info)?;
    let n = c.tape.range(5, if thorough { 300 } else { 80 });
    for _ in 0..n {
        c.now += *c.tape.pick(&[0i64, 1_000, 100_000, 1_500_000, 70_000_000]);
        // flush anything the stack wants to send on its own so that replies are attributable
        let info = c.node.poll(c.now)?;
        emitted(c, &info)?;
        // now and then a short scripted history against the address-bound listener: a handshake attempt that the
        // peer resets, followed by a SYN for the same port on another own address
        if c.script.is_empty() && c.bound_listener.is_some() && c.v4.is_some() && c.tape.draw(20) == 19 {
            c.script = vec![(DstClass::Own2, F_SYN, 1000), (DstClass::Own, F_RST, 1001), (DstClass::Own, F_SYN, 1000)];
            c.stats.inc("inj.scripted-aborted-handshake");
        }
        if !c.hw_changed && c.medium != Medium::Ip && c.script.is_empty() && c.tape.draw(40) == 0 {
            let hw = if c.medium == Medium::Ethernet { smoltcp::wire::HardwareAddress::Ethernet(smoltcp::wire::EthernetAddress(V_MAC_2)) } else { smoltcp::wire::HardwareAddress::Ieee802154(smoltcp::wire::Ieee802154Address::Extended(V_LL8_2)) };
            let iface = &mut c.node.iface;
            guard("Interface::set_hardware_addr", || iface.set_hardware_addr(hw))?;
            c.hw_changed = true;
            c.view.hw_addr = if c.medium == Medium::Ethernet { V_MAC_2.to_vec() } else { V_LL8_2.to_vec() };
            c.stats.inc("inj.hardware-address-changed");
        }
        // now and then the application goes through its address list without changing it: group memberships stay
        if c.script.is_empty() && c.tape.draw(30) == 0 {
            let iface = &mut c.node.iface;
            guard("Interface::update_ip_addrs", || iface.update_ip_addrs(|_| {}))?;
            c.stats.inc("inj.addresses-reapplied");
        }
        let forced = c.script.pop();
        let v6 = !c.two_v4 && (c.v4.is_none() || c.tape.draw(2) == 1) && forced.is_none();
        let dc = *c.tape.pick(&[DstClass::Own, DstClass::OtherOnLink, DstClass::OtherOffLink, DstClass::SubnetBroadcast, DstClass::LimitedBroadcast, DstClass::AllNodes, DstClass::OwnSolicited, DstClass::ForeignSolicited, DstClass::JoinedGroup, DstClass::UnjoinedGroup, DstClass::Unspecified, DstClass::Loopback, DstClass::LookalikeUnicast, DstClass::Own, DstClass::Own2, DstClass::SubnetBroadcast2]);
        let sc = *c.tape.pick(&[SrcClass::OnLink, SrcClass::OnLink, SrcClass::OffLink, SrcClass::Broadcast, SrcClass::Multicast, SrcClass::Unspecified, SrcClass::Loopback, SrcClass::Own, SrcClass::OnLink, SrcClass::OnLink2, SrcClass::Broadcast2]);
        let l2 = match c.medium {
            Medium::Ip => L2Class::Own,
            Medium::Ethernet => *c.tape.pick(&[L2Class::Own, L2Class::Own, L2Class::OtherUnicast, L2Class::Broadcast, L2Class::Multicast]),
            Medium::Ieee802154 => *c.tape.pick(&[L2Class::Own, L2Class::Own, L2Class::OtherUnicast, L2Class::Broadcast, L2Class::OtherPan, L2Class::BroadcastPan, L2Class::OtherPanBroadcast, L2Class::NoDstForeignSrcPan, L2Class::NoDstOwnSrcPan]),
        };
        let (dc, sc, l2) = match forced {
            Some((d, _, _)) => (d, SrcClass::OnLink, L2Class::Own),
            None => (dc, sc, l2),
        };
        let dst = c.dst_addr(dc, v6);
        let src = c.src_addr(sc, v6);
        // ---- protocol and port relation
        let proto = if forced.is_some() { 2 } else { c.tape.draw(9) };
        let mut ns_target: Option<[u8; 16]> = None;
        let mut udp_dport: Option<u16> = None;
        let mut quoted_sport: Option<u16> = None;
        let (l4p, l4, is_err, is_rst, what): (u8, Vec<u8>, bool, bool, &'static str) = match proto {
            0 | 1 => {
                // (7002: the port the closed socket used to have; 0: what an unbound socket's endpoint reads)
                let dport = *c.tape.pick(&[7000u16, 7001, 9999, 53, 7000, 0, 7002, 7003]);
                udp_dport = Some(dport);
                // (source port 0 is legal: "not used", RFC 768)
                // (53 from the configured DNS server and 5353 are what the node's DNS socket listens for - a UDP socket bound
                // to the destination port still comes first)
                let sport = *c.tape.pick(&[4000u16, 4000, 0, 53, 5353]);
                (P_UDP, enc_udp(&src, &dst, sport, dport, b"injected datagram"), false, false, "udp")
            }
            2 | 3 => {
                let flags = *c.tape.pick(&[F_SYN, F_SYN, F_ACK, F_RST, F_ACK | F_PSH, F_FIN | F_ACK]);
                let dport = *c.tape.pick(&[80u16, 81, 9999, 80]);
                let (flags, dport) = match forced {
                    Some((_, f, _)) => (f, 81),
                    None => (flags, dport),
                };
                // few source ports and sequence numbers at / right after the SYN's, so that histories form: a SYN
                // followed by an acceptable RST from the same peer sends a listener back to LISTEN
                let t = Tcp { sport: if forced.is_some() { 5000 } else { 5000 + c.tape.draw(4) as u16 }, dport, seq: match forced {
                    Some((_, _, q)) => q,
                    None if flags & F_SYN != 0 => 1000,
                    None => 1000 + c.tape.draw(2) as u32,
                }, ack: if flags & F_ACK != 0 { 5000 } else { 0 }, flags, win: 1024, payload: if flags & F_PSH != 0 { b"data".to_vec() } else { vec![] }, ..Tcp::default() };
                (P_TCP, enc_tcp(&src, &dst, &t), false, flags & F_RST != 0, "tcp")
            }
            4 => {
                // echo request
                let (typ, p) = if v6 { (128u8, P_ICMP6) } else { (8u8, P_ICMP) };
                (p, enc_icmp(v6, &src, &dst, typ, 0, [0x33, 0x33, 0, 1], b"ping"), false, false, "echo")
            }
            5 => {
                // ICMP error quoting a UDP datagram "from us" (from the port our UDP socket uses, from the port an ICMP
                // socket watches, or from another one); over IPv4 the quoted header sometimes carries options
                let own = if v6 { IpAddr::V6(c.v6) } else { IpAddr::V4(c.v4.unwrap()) };
                let qsport = *c.tape.pick(&[7000u16, 257, 9, 7000]);
                quoted_sport = Some(qsport);
                let mut q = enc_ip(&own, &src, P_UDP, 64, &enc_udp(&own, &src, qsport, 9, b"xxxx"));
                if !v6 && c.tape.draw(3) == 0 {
                    let opts: &[u8] = if c.tape.draw(2) == 0 { &[1, 1, 1, 0] } else { &[1, 1, 1, 1, 1, 1, 1, 0] };
                    let mut w2 = q[..20].to_vec();
                    w2.extend_from_slice(opts);
                    w2.extend_from_slice(&q[20..]);
                    w2[0] = 0x40 | ((20 + opts.len()) / 4) as u8;
                    let tl = q.len() + opts.len();
                    w2[2] = (tl >> 8) as u8;
                    w2[3] = tl as u8;
                    w2[10] = 0;
                    w2[11] = 0;
                    let cs = inet_csum(&w2[..20 + opts.len()], 0);
                    w2[10] = (cs >> 8) as u8;
                    w2[11] = cs as u8;
                    q = w2;
                    c.stats.inc("inj.icmp-error-quoting-a-header-with-options");
                }
                let (typ, p) = if v6 { (1u8, P_ICMP6) } else { (3u8, P_ICMP) };
                (p, enc_icmp(v6, &src, &dst, typ, 3, [0, 0, 0, 0], &q), true, false, "icmp-error")
            }
            8 if v6 => {
                // neighbour solicitation (hop limit 255, see below) for one of: the node's address; a foreign address that
                // shares the low 24 bits with it, and with them the solicited-node group; another on-link address
                let mut t = c.v6;
                match c.tape.draw(3) {
                    0 => {}
                    1 => {
                        t[0] = 0x20;
                        t[1] = 0x01;
                        t[2] = 0x0d;
                        t[3] = 0xb8;
                    }
                    _ => t[15] = 9,
                }
                ns_target = Some(t);
                let mut body = t.to_vec();
                if !matches!(sc, SrcClass::Unspecified) {
                    match c.medium {
                        Medium::Ethernet => {
                            body.extend_from_slice(&[1, 1]);
                            body.extend_from_slice(&P_MAC);
                        }
                        Medium::Ieee802154 => {
                            body.extend_from_slice(&[1, 2]);
                            body.extend_from_slice(&P_LL8);
                            body.extend_from_slice(&[0; 6]);
                        }
                        Medium::Ip => {}
                    }
                }
                c.stats.inc("inj.neighbour-solicitations");
                (P_ICMP6, enc_icmp(true, &src, &dst, 135, 0, [0, 0, 0, 0], &body), false, false, "neighbour-solicitation")
            }
            6 | 8 => {
                // unknown transport protocol
                (253, b"unknown protocol payload".to_vec(), false, false, "proto253")
            }
            _ => {
                // echo reply / ident of our ICMP socket
                let (typ, p) = if v6 { (129u8, P_ICMP6) } else { (0u8, P_ICMP) };
                (p, enc_icmp(v6, &src, &dst, typ, 0, [0x22, 0x22, 0, 1], b"pong"), false, false, "echo-reply")
            }
        };
        // two recorded findings would otherwise end half of all runs early: thin those inputs out
        let thin = (v6 && dc == DstClass::Loopback) || (v6 && l4p == 253 && dst.is_multicast());
        if thin && !c.tape.chance(1, 12) {
            continue;
        }
        // IPv6: sometimes a hop-by-hop options header with one unknown option in front of the payload. The two
        // high-order bits of the option type say what a node that does not know it does (RFC 8200 4.2): 00 skip,
        // 01 discard silently, 11 discard and report unless the destination is multicast, 10 discard and report
        // even then - the one reply to multicast the RFCs demand, so that type goes to unicast destinations only.
        let mut hbh: Option<u8> = None;
        if v6 && forced.is_none() && c.tape.draw(6) == 0 {
            let mut t = *c.tape.pick(&[0xdeu8, 0x1e, 0x5e, 0x9e, 0xc2, 0xff]);
            if t & 0xc0 == 0x80 && dst.is_multicast() {
                t = 0xde;
            }
            hbh = Some(t);
        }
        let (l4p_ip, l4_ip) = match hbh {
            Some(t) => {
                // the header is 8, 16 or 24 octets long; the longer ones carry option data with high-valued octets
                let mut b = match c.tape.draw(3) {
                    0 => vec![l4p, 0, t, 4, 0, 0, 0, 0],
                    1 => {
                        let mut b = vec![l4p, 1, t, 12];
                        for k in 0..12u8 {
                            b.push(0x80 | (k.wrapping_mul(37) ^ t));
                        }
                        b
                    }
                    _ => {
                        // PadN first, then the unknown option
                        let mut b = vec![l4p, 2, 1, 6, 0, 0, 0, 0, 0, 0, t, 12];
                        for k in 0..12u8 {
                            b.push(0xf0 ^ k);
                        }
                        b
                    }
                };
                b.extend_from_slice(&l4);
                c.stats.inc("inj.hop-by-hop-unknown-option");
                (P_HBH, b)
            }
            None => (l4p, l4.clone()),
        };
        let ip = enc_ip(&src, &dst, l4p_ip, if ns_target.is_some() { 255 } else { 64 }, &l4_ip);
        // Ethernet + IPv4: sometimes the frame is an ARP request or reply for the node's address instead, sent to
        // the link-layer destination class drawn above (own, another station's, broadcast, multicast)
        let arp_frame: Option<Vec<u8>> = if c.medium == Medium::Ethernet && c.v4.is_some() && forced.is_none() && hbh.is_none() && c.tape.draw(12) == 0 {
            let a = Arp { op: 1 + c.tape.draw(2) as u16, sha: P_MAC, spa: [10, 0, 0, 2], tha: if c.tape.draw(2) == 0 { [0; 6] } else { V_MAC }, tpa: c.v4.unwrap() };
            let dmac = match l2 {
                L2Class::Own if c.hw_changed => V_MAC_2,
                L2Class::Own => V_MAC,
                L2Class::OtherUnicast if c.hw_changed => V_MAC,
                L2Class::OtherUnicast => [2, 0, 0, 0, 0, 0x55],
                L2Class::Broadcast => [0xff; 6],
                _ => [0x33, 0x33, 0, 0, 0, 1],
            };
            c.stats.inc("inj.arp-frames");
            Some(enc_eth(dmac, P_MAC, ETH_ARP, &enc_arp(&a)))
        } else {
            None
        };
        let is_arp = arp_frame.is_some();
        let (dc, sc, what) = if is_arp { (DstClass::Own, SrcClass::OnLink, "arp") } else { (dc, sc, what) };
        let (l4p, is_err, is_rst) = if is_arp { (0u8, false, false) } else { (l4p, is_err, is_rst) };
        if is_arp {
            udp_dport = None;
            quoted_sport = None;
        }
        let (dst, src) = if is_arp { (IpAddr::V4(c.v4.unwrap()), IpAddr::V4([10, 0, 0, 2])) } else { (dst, src) };
        let frame = match arp_frame {
            Some(f) => f,
            None => c.wrap(ip, l2),
        };
        c.stats.inc("inj.packets");
        // ---- independent verdicts
        let l2_ours = match (c.medium, l2) {
            (Medium::Ip, _) => true,
            (Medium::Ethernet, L2Class::OtherUnicast) => false,
            (Medium::Ethernet, _) => true,
            (Medium::Ieee802154, L2Class::OtherPan) | (Medium::Ieee802154, L2Class::OtherPanBroadcast) | (Medium::Ieee802154, L2Class::NoDstForeignSrcPan) | (Medium::Ieee802154, L2Class::NoDstOwnSrcPan) => false,
            (Medium::Ieee802154, _) => true,
        };
        let l3_ours = match dc {
            DstClass::Own | DstClass::Own2 => true,
            DstClass::SubnetBroadcast | DstClass::SubnetBroadcast2 | DstClass::LimitedBroadcast => true, // (v6: all-nodes)
            DstClass::AllNodes => true,
            DstClass::OwnSolicited | DstClass::JoinedGroup => {
                if v6 {
                    dc == DstClass::OwnSolicited || c.joined6
                } else {
                    c.joined4
                }
            }
            _ => false,
        };
        let for_us = l2_ours && l3_ours;
        let dst_nonunicast = dst.is_multicast() || dst.is_limited_broadcast() || matches!(dc, DstClass::SubnetBroadcast | DstClass::SubnetBroadcast2) && !v6;
        // loopback and the node's own address are unicast addresses (martians, but the rule is about
        // broadcast / multicast / unspecified sources)
        let src_nonunicast = matches!(sc, SrcClass::Broadcast | SrcClass::Broadcast2 | SrcClass::Multicast | SrcClass::Unspecified);
        if !for_us {
            c.stats.inc("inj.not-for-us");
        }
        let hbh_tag = match hbh {
            Some(t) => format!("+hbh-option-{:02x}", t & 0xc0),
            None => String::new(),
        };
        let summary = format!("{}{} {}>{} l2={:?} dst={:?} src={:?}", what, hbh_tag, src, dst, l2, dc, sc);
        c.log(|| format!("INJ {}", summary));
        let (tcp_before, all_before) = c.snapshot();
        let bl_before = c.bound_listener.map(|(h, _)| crate::scen_tcp::strip_storage(&format!("{:?}", c.node.sockets.get::<tcp::Socket>(h))));
        c.events += 1;
        c.hash.bytes(&frame);
        c.node.dev.rx.push_back(frame);
        let info = c.node.poll_ingress_single(c.now)?;
        let out = emitted(c, &info)?;
        let (tcp_after, all_after) = c.snapshot();
        // C09 (datagram sockets): an ICMP error that arrives for the node from a unicast peer and quotes a complete,
        // valid UDP datagram sent from the watched port is a valid datagram for the ICMP socket bound to that port: it
        // is delivered, once (the socket's buffer is drained after every frame, so there is room)
        if c.props.has("C09") && !c.props.has("C11") {
            // (a datagram to a group the application joined is for the node as well)
            let to_joined_group = dc == DstClass::JoinedGroup && if v6 { c.joined6 } else { c.joined4 };
            let from_a_peer = hbh.is_none() && l2 == L2Class::Own && (matches!(dc, DstClass::Own | DstClass::Own2) || to_joined_group) && matches!(sc, SrcClass::OnLink | SrcClass::OffLink | SrcClass::OnLink2) && !is_arp;
            // the same for a plain UDP datagram to a bound port: it reaches the first socket whose endpoint matches,
            // once, whole (the buffers are drained after every frame)
            let judge_udp = from_a_peer && l4p == P_UDP;
            {
                let mut expected: Option<usize> = None;
                for i in 0..c.socks.len() {
                    if let Sk::Udp(_, port, bound) = &c.socks[i] {
                        // (a socket bound to an address also takes datagrams to a multicast destination on its port)
                        if *port != 0 && Some(*port) == udp_dport && (bound.is_none() || *bound == Some(dst) || dst.is_multicast()) && expected.is_none() {
                            expected = Some(i);
                        }
                    }
                }
                for i in 0..c.socks.len() {
                    if let Sk::Udp(h, port, _) = &c.socks[i] {
                        let (h, port) = (*h, *port);
                        let so = c.node.sockets.get_mut::<udp::Socket>(h);
                        let mut got: Vec<Vec<u8>> = vec![];
                        while let Ok((d, _m)) = so.recv() {
                            got.push(d.to_vec());
                        }
                        // (the sockets are emptied after every frame, judged or not)
                        let want: usize = if expected == Some(i) { 1 } else { 0 };
                        if judge_udp && (got.len() != want || got.iter().any(|g| g != b"injected datagram")) {
                            return Err(viol("C09", "must-deliver", "C09.must-deliver/injected-udp-datagram-not-delivered-once-and-whole", format!("the UDP socket on port {} received {:?} (expected {} intact datagram) for: {}", port, got.iter().map(|g| g.len()).collect::<Vec<_>>(), want, summary)));
                        }
                    }
                }
                if judge_udp {
                    c.stats.inc("inj.c09-udp-deliveries-checked");
                }
            }
            let plain = is_err && quoted_sport == Some(257) && from_a_peer;
            for i in 0..c.socks.len() {
                if let Sk::IcmpUdp(h, port) = &c.socks[i] {
                    let (h, port) = (*h, *port);
                    let so = c.node.sockets.get_mut::<icmp::Socket>(h);
                    let mut n = 0;
                    while let Ok((_d, _f)) = so.recv() {
                        n += 1;
                    }
                    if plain && n != 1 {
                        return Err(viol("C09", "must-deliver", "C09.must-deliver/icmp-error-for-the-watched-udp-port-not-delivered-once", format!("an ICMP error quoting a UDP datagram sent from port {} was delivered {} times to the ICMP socket bound to that port: {}", port, n, summary)));
                    }
                    if plain {
                        c.stats.inc("inj.c09-watcher-deliveries-checked");
                    }
                }
            }
            continue;
        }
        if !c.props.has("C11") {
            continue;
        }
        // now and then the application closes the port-only UDP socket right after the frame - before reading what
        // may have arrived - and binds it to the other of two ports: what it reads afterwards arrived for that port
        if c.tape.draw(24) == 0 {
            for i in 0..c.socks.len() {
                if let Sk::Udp(h, port, None) = &c.socks[i] {
                    if *port == 7000 || *port == 7003 {
                        let (h, np) = (*h, if *port == 7000 { 7003u16 } else { 7000 });
                        let so = c.node.sockets.get_mut::<udp::Socket>(h);
                        guard("udp::close+bind", || {
                            so.close();
                            so.bind(np).unwrap();
                        })?;
                        c.socks[i] = Sk::Udp(h, np, None);
                        c.stats.inc("inj.udp-socket-closed-and-rebound");
                        break;
                    }
                }
            }
        }
        // every consequence of "::1 arriving from the network is accepted" is one finding
        let lo6 = v6 && dc == DstClass::Loopback;
        let sigfix = |s: String| -> String { if lo6 { "C11.ipv6-loopback-destination-accepted-from-the-network".to_string() } else { s } };
        let kind_of = |p: &Packet| -> Option<&'static str> {
            match &p.l4 {
                Some(L4::Tcp(t)) if t.has(F_RST) => Some("tcp-rst"),
                Some(L4::Icmp4(i)) if matches!(i.typ, 3 | 4 | 5 | 11 | 12) => Some("icmpv4-error"),
                Some(L4::Icmp6(i)) if i.typ < 128 => Some("icmpv6-error"),
                _ => None,
            }
        };
        // 1. not addressed to us: no delivery, no answer
        if !for_us {
            if all_before != all_after {
                let (a, b) = crate::scen_tcp::first_diff(&all_before, &all_after);
                return Err(viol("C11", "not-for-us", sigfix(format!("C11.foreign/socket-changed/{}/dst={:?}/l2={:?}", what, dc, l2)), format!("a packet not addressed to the interface changed a socket: {} ; ..{}.. => ..{}..", summary, a, b)));
            }
            if let Some(p) = out.first() {
                return Err(viol("C11", "not-for-us", sigfix(format!("C11.foreign/answered/{}/dst={:?}/l2={:?}", what, dc, l2)), format!("a packet not addressed to the interface was answered: {} ; reply: {}", summary, p.summary())));
            }
        }
        // 1b. a neighbour solicitation that asks for an address the interface does not have is not answered
        if let Some(t) = ns_target {
            if t != c.v6 {
                if let Some(p) = out.iter().find(|p| matches!(&p.l4, Some(L4::Icmp6(i)) if i.typ == 136)) {
                    return Err(viol("C11", "not-for-us", sigfix("C11.foreign/answered/neighbour-solicitation-for-a-foreign-target".to_string()), format!("a neighbour solicitation for {} - not an address of the interface - was answered: {} ; reply: {}", IpAddr::V6(t), summary, p.summary())));
                }
            }
        }
        // 2. broadcast / multicast destination or non-unicast source: no RST, no ICMP error
        if dst_nonunicast || src_nonunicast {
            for p in &out {
                if let Some(k) = kind_of(p) {
                    // the one case pinned by the repository's own test suite
                    let pp_nxt = matches!(&p.l4, Some(L4::Icmp6(i)) if i.typ == 4 && i.code == 1) && dst.is_multicast();
                    if pp_nxt {
                        return Err(viol("C11", "no-error-to-nonunicast", "C11.reply/icmpv6-param-problem-unrecognized-next-header-to-multicast", format!("ICMPv6 Parameter Problem (unrecognized next header) sent in answer to a packet with a multicast destination: {} ; reply: {}", summary, p.summary())));
                    }
                    let why = if dst_nonunicast { format!("dst={:?}", dc) } else { format!("src={:?}", sc) };
                    return Err(viol("C11", "no-error-to-nonunicast", format!("C11.reply/{}/{}{}/{}", k, what, hbh_tag, why), format!("{} sent in answer to a packet with a non-unicast {}: {} ; reply: {}", k, if dst_nonunicast { "destination" } else { "source" }, summary, p.summary())));
                }
            }
        }
        // 3. never answer an error or a reset with an error or a reset
        // (a reset behind an unknown hop-by-hop option is never looked at: the Parameter Problem answers the
        // option, as RFC 8200 demands, not the segment. An ICMPv6 error behind one must still not be answered:
        // RFC 4443 2.4 (e.1).)
        if is_err || (is_rst && hbh.is_none()) {
            for p in &out {
                if let Some(k) = kind_of(p) {
                    return Err(viol("C11", "no-error-for-error", format!("C11.error-for-error/{}/{}{}", k, what, hbh_tag), format!("{} sent in answer to {}: {} ; reply: {}", k, if is_err { "an ICMP error" } else { "a TCP RST" }, summary, p.summary())));
                }
            }
        }
        // 4. TCP to broadcast / multicast / loopback: no TCP socket changes
        if l4p == P_TCP && (dst_nonunicast || dc == DstClass::Loopback) && tcp_before != tcp_after {
            let (a, b) = crate::scen_tcp::first_diff(&tcp_before, &tcp_after);
            return Err(viol("C11", "tcp-nonunicast", sigfix(format!("C11.tcp-state/dst={:?}", dc)), format!("a TCP segment addressed to a non-unicast/loopback destination changed a TCP socket: {} ; ..{}.. => ..{}..", summary, a, b)));
        }
        // 5a. a TCP listener bound to one address is untouched by segments addressed to another
        if let (Some((h, bound)), Some(before)) = (c.bound_listener, bl_before) {
            if l4p == P_TCP && dst != bound {
                let after = crate::scen_tcp::strip_storage(&format!("{:?}", c.node.sockets.get::<tcp::Socket>(h)));
                if before != after {
                    let (a, b) = crate::scen_tcp::first_diff(&before, &after);
                    return Err(viol("C11", "endpoint-match", sigfix("C11.endpoint/tcp-socket-bound-to-another-address-changed".to_string()), format!("the TCP socket listening on {}:81 changed on a segment addressed to {}: {} ; ..{}.. => ..{}..", bound, dst, summary, a, b)));
                }
            }
        }
        // 5b. an ICMP socket bound to a UDP port only ever gets errors that quote a datagram sent from that port
        for i in 0..c.socks.len() {
            if let Sk::IcmpUdp(h, port) = &c.socks[i] {
                let (h, port) = (*h, *port);
                let so = c.node.sockets.get_mut::<icmp::Socket>(h);
                while let Ok((_data, _from)) = so.recv() {
                    c.stats.inc("inj.icmp-error-delivered-to-the-port-watcher");
                    if !(is_err && quoted_sport == Some(port)) {
                        return Err(viol("C11", "endpoint-match", "C11.endpoint/icmp-socket-bound-to-a-udp-port-received-an-error-about-another-port", format!("the ICMP socket watching UDP port {} received a message although the packet delivered was: {} (quoted source port {:?})", port, summary, quoted_sport)));
                    }
                }
            }
        }
        // 5c. the ICMP socket bound to an identifier only ever gets echo replies carrying that identifier
        for i in 0..c.socks.len() {
            if let Sk::Icmp(h) = &c.socks[i] {
                let h = *h;
                let so = c.node.sockets.get_mut::<icmp::Socket>(h);
                while let Ok((data, _from)) = so.recv() {
                    c.stats.inc("inj.icmp-delivered-to-the-ident-socket");
                    let ok = data.len() >= 8 && (data[0] == 0 || data[0] == 129) && data[4] == 0x22 && data[5] == 0x22;
                    if !ok {
                        return Err(viol("C11", "endpoint-match", "C11.endpoint/icmp-socket-bound-to-an-identifier-received-another-message", format!("the ICMP socket bound to identifier 0x2222 received a message of type {} although the packet delivered was: {}", data.first().copied().unwrap_or(0), summary)));
                    }
                }
            }
        }
        // 5. whatever reached a UDP socket matches its bound endpoint
        for i in 0..c.socks.len() {
            if let Sk::Udp(h, port, bound) = &c.socks[i] {
                let (h, port, bound) = (*h, *port, *bound);
                let s = c.node.sockets.get_mut::<udp::Socket>(h);
                while let Ok((_data, meta)) = s.recv() {
                    c.stats.inc("inj.udp-delivered");
                    if port == 0 {
                        return Err(viol("C11", "endpoint-match", "C11.endpoint/udp-socket-without-endpoint-received", format!("a UDP socket that is not bound (never bound, or closed) received a datagram: {}", summary)));
                    }
                    if udp_dport != Some(port) {
                        return Err(viol("C11", "endpoint-match", "C11.endpoint/udp-wrong-port", format!("UDP socket bound to port {} received a datagram although the packet delivered was: {}", port, summary)));
                    }
                    let la = meta.local_address.map(|a| from_smol(&a));
                    if let (Some(b), Some(la)) = (bound, la) {
                        let la_nonunicast = la.is_multicast() || la.is_limited_broadcast() || la == IpAddr::V4(c.bc1) || la == IpAddr::V4([172, 16, 255, 255]);
                        if la != b && !la_nonunicast {
                            return Err(viol("C11", "endpoint-match", "C11.endpoint/udp-wrong-address", format!("UDP socket bound to {}:{} received a datagram addressed to {}", b, port, la)));
                        }
                    }
                }
            }
        }
    }
    Ok(())
}
