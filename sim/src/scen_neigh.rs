//! C16: one real node on Ethernet against a scripted population of neighbours and gateways that
//! answer ARP requests / neighbour solicitations timely, late, never, or with spoofed content
//! (non-unicast hardware address, off-link sender), that announce themselves unsolicited, with more
//! neighbours than cache slots, routes that expire, address changes and time advances landing on
//! and around the 1 s and 60 s boundaries.
//!
//! Oracles (all on the frames the node puts on the wire, decoded by the independent codec):
//!  * a unicast IP frame goes to a hardware address that a *valid* announcement delivered to the node
//!    within the last 60 s gave for the next hop (destination if on-link, else the gateway of the
//!    longest-prefix unexpired route); never to a spoofed, stale, foreign or guessed address;
//!  * two ARP requests / multicast neighbour solicitations are at least 1 s apart;
//!  * a datagram accepted by a socket is transmitted exactly once, in socket order, once its next
//!    hop resolves (nothing is lost while the address is unknown).

use crate::codec::*;
use crate::core::*;
use crate::mk::*;
use crate::tap::{self, NodeView};
use crate::tape::{LogHash, Tape};
use smoltcp::iface::{Route, SocketHandle};
use smoltcp::socket::udp;
use smoltcp::time::Instant;
use smoltcp::wire::{IpCidr, IpEndpoint};
use std::collections::{BTreeMap, VecDeque};

const V_MAC: [u8; 6] = [2, 0, 0, 0, 0, 1];

#[derive(Clone, Copy, PartialEq, Eq, Debug)]
enum Policy {
    Timely,
    Late,
    Absent,
    /// first an invalid answer (non-unicast hardware address), then the true one
    SpoofMac,
    /// the answer claims an off-link protocol address for a foreign hardware address, then the true one
    SpoofOffLink,
}

struct Nb {
    ip: IpAddr,
    mac: [u8; 6],
    policy: Policy,
}

struct Q {
    dst: IpAddr,
    dport: u16,
    payload: Vec<u8>,
}

struct C<'a> {
    tape: &'a mut Tape,
    props: Props,
    node: Node,
    view: NodeView,
    v6: bool,
    now: i64,
    stats: Stats,
    hash: LogHash,
    trace: Vec<String>,
    trace_on: bool,
    events: u64,
    nbs: Vec<Nb>,
    /// (ip, mac) -> instant of the latest valid announcement / confirming traffic delivered to the node
    learned: BTreeMap<(IpAddr, [u8; 6]), i64>,
    /// hardware addresses only ever offered by invalid announcements
    spoof_macs: Vec<[u8; 6]>,
    /// frames in flight to the node
    inflight: Vec<(i64, u64, Vec<u8>, Option<(IpAddr, [u8; 6])>)>,
    seq: u64,
    socks: Vec<(SocketHandle, u16, VecDeque<Q>)>,
    last_solicit: Option<i64>,
    /// model of the route table: (prefix, len, via, expires_at)
    routes: Vec<(IpAddr, u8, IpAddr, Option<i64>)>,
    my_addr: IpAddr,
    /// the node's current hardware address (the application may change it at run time)
    my_mac: [u8; 6],
    next_id: u32,
    final_phase: bool,
    /// prefix length of the interface's subnet
    plen: u8,
    frag_mode: bool,
    /// instant of the poll before the current one
    prev_poll: i64,
    this_poll: i64,
    /// announcements carried by the frames waiting in the device's receive queue (same order)
    rx_meta: VecDeque<Option<(IpAddr, [u8; 6])>>,
    /// egress fragments: IPv4 ident -> link-layer destination of the first fragment
    frag_l2: BTreeMap<u16, [u8; 6]>,
}

impl<'a> C<'a> {
    fn log(&mut self, f: impl FnOnce() -> String) {
        if self.trace_on && self.trace.len() < 4000 {
            let s = f();
            self.trace.push(format!("t={:>13.6}s {}", self.now as f64 / 1e6, s));
        }
    }
}

thread_local! {
    /// prefix length of the IPv6 subnet of the current run (when shorter than /64 the hosts are spread over the
    /// /64s it covers, so that on-link decisions depend on the bits of the partly covered octet)
    static PLEN6: std::cell::Cell<u8> = const { std::cell::Cell::new(64) };
    /// prefix length of the interface's subnet, whatever the family
    static PLEN: std::cell::Cell<u8> = const { std::cell::Cell::new(24) };
}

fn ip_of(v6: bool, host: u8) -> IpAddr {
    if v6 {
        let mut a = [0u8; 16];
        a[0] = 0xfd;
        a[15] = host;
        let plen = PLEN6.with(|p| p.get());
        if plen < 64 {
            a[7] = host & ((1u16 << (64 - plen)) - 1) as u8;
        }
        IpAddr::V6(a)
    } else {
        IpAddr::V4([10, 0, 0, host])
    }
}

fn off_link(v6: bool, k: u8) -> IpAddr {
    // 0,2: inside the specific route's prefix; 1: only the default route matches; 3: the first address block right
    // outside the interface's own subnet (differs from it in the last bit the prefix does not cover any more)
    if k == 3 {
        let plen = PLEN.with(|p| p.get());
        return if v6 {
            let mut a = [0u8; 16];
            a[0] = 0xfd;
            a[7] = (1u16 << (64 - plen.min(64))).min(128) as u8;
            a[15] = 9;
            IpAddr::V6(a)
        } else {
            IpAddr::V4([10, 0, (1u16 << (24 - plen.min(24))).min(128) as u8, 9])
        };
    }
    if v6 {
        let mut a = [0u8; 16];
        a[0] = 0x20;
        a[1] = 0x01;
        a[2] = 0x0d;
        a[3] = 0xb8;
        a[5] = if k == 1 { 9 } else { 7 };
        a[15] = 9 + k;
        IpAddr::V6(a)
    } else if k == 1 {
        IpAddr::V4([8, 8, 8, 8])
    } else {
        IpAddr::V4([192, 168, 7, 9 + k])
    }
}

fn specific_prefix(v6: bool) -> (IpAddr, u8) {
    if v6 {
        let mut a = [0u8; 16];
        a[0] = 0x20;
        a[1] = 0x01;
        a[2] = 0x0d;
        a[3] = 0xb8;
        a[5] = 7;
        (IpAddr::V6(a), 48)
    } else {
        (IpAddr::V4([192, 168, 7, 0]), 24)
    }
}

fn in_prefix(a: &IpAddr, p: &IpAddr, len: u8) -> bool {
    let (a, p) = (a.bytes(), p.bytes());
    if a.len() != p.len() {
        return false;
    }
    let full = (len / 8) as usize;
    if a[..full] != p[..full] {
        return false;
    }
    let rem = len % 8;
    if rem == 0 {
        return true;
    }
    let m = 0xffu8 << (8 - rem);
    a[full] & m == p[full] & m
}

fn on_link(c: &C, a: &IpAddr) -> bool {
    in_prefix(a, &c.my_addr, c.plen)
}

/// Next hop per the statement: the destination if on-link, else the gateway of the longest-prefix
/// unexpired matching route.
fn next_hop(c: &C, dst: &IpAddr) -> Option<IpAddr> {
    if on_link(c, dst) {
        return Some(dst.clone());
    }
    c.routes.iter().filter(|(p, l, _, exp)| in_prefix(dst, p, *l) && exp.map(|e| c.now <= e).unwrap_or(true)).max_by_key(|r| r.1).map(|r| r.2.clone())
}

pub fn run(tape: &mut Tape, props: Props, thorough: bool, trace_on: bool) -> Outcome {
    let v6 = tape.draw(3) == 2;
    let mut cfg = NodeCfg::basic('V', Medium::Ethernet, 1514, 1, v6);
    cfg.mac = V_MAC;
    // prefix length of the interface's subnet: the usual one, or a shorter one that ends inside an octet (IPv6: the
    // neighbours and gateways are then spread over the /64s it covers)
    let plen: u8 = if v6 { *tape.pick(&[64u8, 64, 64, 62, 61, 58, 63]) } else { *tape.pick(&[24u8, 24, 24, 23, 22, 21]) };
    PLEN6.with(|p| p.set(if v6 { plen } else { 64 }));
    PLEN.with(|p| p.set(plen));
    cfg.addrs = vec![(ip_of(v6, 1), plen)];
    cfg.seed = 5 + tape.draw(1 << 16);
    // some IPv4 runs use a small link MTU: datagrams are fragmented on egress and the fragments of one
    // datagram leave over several polls (device back-pressure) while other neighbours keep talking to the node
    let frag_mode = !v6 && tape.draw(3) == 2;
    if frag_mode {
        cfg.mtu = 300 + 14;
    }
    let mut node = build_node(&cfg);
    let view = cfg.view();
    let nn = 2 + tape.draw(if thorough { 12 } else { 11 }) as usize;
    let mut nbs = vec![];
    for i in 0..nn {
        nbs.push(Nb { ip: ip_of(v6, 10 + i as u8), mac: [2, 0, 0, 0, 1, i as u8], policy: Policy::Timely });
    }
    nbs.push(Nb { ip: ip_of(v6, 254), mac: [2, 0, 0, 0, 2, 1], policy: Policy::Timely });
    nbs.push(Nb { ip: ip_of(v6, 253), mac: [2, 0, 0, 0, 2, 2], policy: Policy::Timely });
    let mut socks = vec![];
    for k in 0..3u16 {
        let mut s = udp::Socket::new(udp::PacketBuffer::new(vec![udp::PacketMetadata::EMPTY; 4], vec![0u8; 512]), udp::PacketBuffer::new(vec![udp::PacketMetadata::EMPTY; 8], vec![0u8; 4096]));
        s.bind(7000 + k).unwrap();
        socks.push((node.sockets.add(s), 7000 + k, VecDeque::new()));
    }
    let desc = format!("neighbours v6={} /{} on-link-neighbours={} (cache slots 8) egress-fragmentation={}", v6, plen, nn, frag_mode);
    let mut c = C {
        tape,
        props,
        node,
        view,
        v6,
        now: 0,
        stats: Stats::default(),
        hash: LogHash::new(),
        trace: vec![],
        trace_on,
        events: 0,
        nbs,
        learned: BTreeMap::new(),
        spoof_macs: vec![],
        inflight: vec![],
        seq: 0,
        socks,
        last_solicit: None,
        routes: vec![],
        my_addr: ip_of(v6, 1),
        my_mac: V_MAC,
        next_id: 0,
        final_phase: false,
        plen,
        frag_mode,
        prev_poll: 0,
        this_poll: 0,
        rx_meta: VecDeque::new(),
        frag_l2: BTreeMap::new(),
    };
    let r = body(&mut c, thorough);
    let nontrivial = c.stats.get("neigh.unicast-frames-checked") >= 3 && c.stats.get("neigh.solicitations") >= 2;
    c.stats.add("sim.seconds", (c.now / 1_000_000) as u64);
    Outcome { viol: r.err(), stats: c.stats, hash: c.hash, nontrivial, trace: c.trace, sim_us: c.now, events: c.events, cfg_desc: desc }
}

fn set_routes(c: &mut C) -> Result<(), Violation> {
    let routes = c.routes.clone();
    let rt = c.node.iface.routes_mut();
    guard("routes::update", || {
        rt.update(|v| {
            v.clear();
            for (p, l, via, exp) in &routes {
                let _ = v.push(Route { cidr: IpCidr::new(to_smol(p), *l), via_router: to_smol(via), preferred_until: None, expires_at: exp.map(Instant::from_micros) });
            }
        })
    })
}

fn push_frame(c: &mut C, at: i64, f: Vec<u8>, announce: Option<(IpAddr, [u8; 6])>) {
    c.seq += 1;
    c.inflight.push((at, c.seq, f, announce));
}

/// A (valid or invalid) answer / announcement from the population to the node.
fn announce(c: &mut C, who: usize, at: i64, kind: u8, solicited_by: Option<(IpAddr, [u8; 6])>) {
    let nb_ip = c.nbs[who].ip.clone();
    let nb_mac = c.nbs[who].mac;
    let (to_ip, to_mac) = solicited_by.unwrap_or((c.my_addr.clone(), c.my_mac));
    // kind 0: true; 1: non-unicast hardware address; 2: off-link protocol address with a foreign hardware address
    let (claim_ip, claim_mac, valid) = match kind {
        0 => (nb_ip.clone(), nb_mac, true),
        1 => {
            let m = *c.tape.pick(&[[0xffu8; 6], [1, 0, 0x5e, 0, 0, 1], [0x33, 0x33, 0, 0, 0, 1], [3, 0, 0, 0, 9, who as u8]]);
            (nb_ip.clone(), m, false)
        }
        _ => {
            let m = [2, 0, 0, 0, 9, who as u8];
            (off_link(c.v6, c.tape.draw(3) as u8), m, false)
        }
    };
    if !valid && !c.spoof_macs.contains(&claim_mac) {
        c.spoof_macs.push(claim_mac);
    }
    let f = if c.v6 {
        // neighbour advertisement: flags R S O, target, target link-layer address option
        let flags = if solicited_by.is_some() { 0x60u8 } else { *c.tape.pick(&[0x20u8, 0x00, 0x60]) };
        let mut body = claim_ip.v6().to_vec();
        body.extend_from_slice(&[2, 1]);
        body.extend_from_slice(&claim_mac);
        // the IP source of the advertisement is the claimed address (off-link for kind 2)
        let icmp = enc_icmp(true, &claim_ip, &to_ip, 136, 0, [flags, 0, 0, 0], &body);
        enc_eth(to_mac, if valid { claim_mac } else { nb_mac }, ETH_IPV6, &enc_ip(&claim_ip, &to_ip, P_ICMP6, 255, &icmp))
    } else {
        let op = if solicited_by.is_some() { 2 } else { *c.tape.pick(&[2u16, 1]) };
        let a = Arp { op, sha: claim_mac, spa: claim_ip.v4(), tha: if op == 2 { to_mac } else { [0; 6] }, tpa: to_ip.v4() };
        enc_eth(if op == 2 { to_mac } else { [0xff; 6] }, if valid { claim_mac } else { nb_mac }, ETH_ARP, &enc_arp(&a))
    };
    c.stats.inc(match kind {
        0 => "neigh.valid-announcements",
        1 => "fault.spoof-non-unicast-hardware-address",
        _ => "fault.spoof-off-link-sender",
    });
    // an IPv6 frame from an on-link source is itself traffic from that neighbour: (IP source, Ethernet source)
    // may be learned from it whatever the advertisement says
    let ann = if valid {
        Some((claim_ip, claim_mac))
    } else if c.v6 && kind == 1 {
        Some((nb_ip, nb_mac))
    } else {
        None
    };
    push_frame(c, at, f, ann);
}

fn poll(c: &mut C) -> Result<(), Violation> {
    c.prev_poll = c.this_poll;
    c.this_poll = c.now;
    c.events += 1;
    c.hash.u64(c.now as u64);
    c.inflight.sort_by_key(|x| (x.0, x.1));
    while let Some(first) = c.inflight.first() {
        if first.0 > c.now {
            break;
        }
        let (_, _, f, ann) = c.inflight.remove(0);
        c.hash.bytes(&f);
        if c.trace_on {
            let sm = decode_frame(Medium::Ethernet, &f, &Verify::none()).map(|p| p.summary()).unwrap_or_else(|_| "(undecodable)".into());
            c.log(|| format!("V rx {} [counts as valid announcement: {:?}]", sm, ann));
        }
        // a valid announcement counts from the poll that actually ingests it (under device back-pressure a
        // frame may sit in the device's receive queue for several polls)
        c.rx_meta.push_back(ann);
        c.node.dev.rx.push_back(f);
        c.stats.inc("frames.delivered");
    }
    let now = c.now;
    let nrx = c.node.dev.rx.len();
    c.log(|| format!("poll ({} frame(s) delivered)", nrx));
    c.node.dev.tx_budget = if c.frag_mode && !c.final_phase && c.tape.draw(2) == 0 { Some(1 + c.tape.draw(2) as usize) } else { None };
    let info = c.node.poll(now)?;
    c.node.dev.tx_budget = None;
    while c.rx_meta.len() > c.node.dev.rx.len() {
        if let Some(Some((ip, mac))) = c.rx_meta.pop_front() {
            // the node only listens to announcements addressed to one of its current addresses; the model is
            // an over-approximation (learned := could have been learned)
            c.learned.insert((ip, mac), c.now);
        }
    }
    for raw in &info.tx {
        c.hash.bytes(raw);
        c.stats.inc("frames.tx");
        let pkt = tap::check_frame(c.props, &c.view, raw, &mut c.stats)?;
        let Some(p) = pkt else { continue };
        on_tx(c, &p)?;
    }
    Ok(())
}

/// A neighbour sends the node a valid, large ICMP echo request as IPv4 fragments (the reply has to be
/// fragmented too, or is dropped while the fragmenter is busy).
fn big_echo_from_neighbour(c: &mut C) {
    let nn = c.nbs.len();
    let who = c.tape.draw(nn as u64) as usize;
    let src = c.nbs[who].ip.clone();
    let mac = c.nbs[who].mac;
    let dst = c.my_addr.clone();
    let n = c.tape.range(300, 900) as usize;
    let data: Vec<u8> = (0..n).map(|i| (i * 7) as u8).collect();
    let l4 = enc_icmp(false, &src, &dst, 8, 0, [0x55, 0x55, 0, 1], &data);
    let ident = 0x6000 + c.tape.draw(4096) as u16;
    let mut off = 0;
    let mut k = 0i64;
    while off < l4.len() {
        let end = (off + 272).min(l4.len());
        let o = V4Opts { ident, df: false, mf: end < l4.len(), frag_off: off, tos: 0 };
        let f = enc_eth(c.my_mac, mac, ETH_IPV4, &enc_ipv4(src.v4(), dst.v4(), P_ICMP, 64, &o, &l4[off..end]));
        // traffic from an on-link neighbour confirms (ip, mac)
        push_frame(c, c.now + 1_000 + k, f, Some((src.clone(), mac)));
        off = end;
        k += 1;
    }
    c.stats.inc("neigh.big-echo-requests-from-neighbours");
}

fn on_tx(c: &mut C, p: &Packet) -> Result<(), Violation> {
    let on = c.props.has("C16");
    let sm = p.summary();
    let eth = p.eth.clone().unwrap();
    // ---- solicitations
    let mut solicited: Option<IpAddr> = None;
    if let Some(a) = &p.arp {
        if a.op == 1 {
            solicited = Some(IpAddr::V4(a.tpa));
        }
    }
    if let Some((ip, ic)) = p.icmp6() {
        if ic.typ == 135 && ip.dst.is_multicast() && ic.body.len() >= 16 {
            let mut t = [0u8; 16];
            t.copy_from_slice(&ic.body[..16]);
            solicited = Some(IpAddr::V6(t));
        }
    }
    if let Some(target) = solicited {
        c.stats.inc("neigh.solicitations");
        c.log(|| format!("V solicits {}", target));
        if let Some(t) = c.last_solicit {
            if c.now - t < 1_000_000 && on {
                return Err(viol("C16", "rate-limit", "C16.rate/solicitations-closer-than-1s", format!("two ARP requests / neighbour solicitations {} us apart (second one for {})", c.now - t, target)));
            }
        }
        c.last_solicit = Some(c.now);
        // the population answers according to the target's policy
        let asker = (c.my_addr.clone(), c.my_mac);
        if let Some(who) = c.nbs.iter().position(|n| n.ip == target) {
            let pol = if c.final_phase { Policy::Timely } else { c.nbs[who].policy };
            match pol {
                Policy::Timely => announce(c, who, c.now + 1_000, 0, Some(asker)),
                Policy::Late => {
                    let d = *c.tape.pick(&[1_200_000i64, 999_000, 3_000_000, 30_000_000, 61_000_000]);
                    c.stats.inc("fault.late-answer");
                    announce(c, who, c.now + d, 0, Some(asker))
                }
                Policy::Absent => c.stats.inc("fault.no-answer"),
                Policy::SpoofMac => {
                    announce(c, who, c.now + 500, 1, Some(asker.clone()));
                    if c.tape.draw(2) == 0 {
                        announce(c, who, c.now + 2_000, 0, Some(asker));
                    }
                }
                Policy::SpoofOffLink => {
                    announce(c, who, c.now + 500, 2, Some(asker.clone()));
                    if c.tape.draw(2) == 0 {
                        announce(c, who, c.now + 2_000, 0, Some(asker));
                    }
                }
            }
        }
        return Ok(());
    }
    // ---- unicast IP
    let Some(ip) = &p.ip else { return Ok(()) };
    if ip.dst.is_multicast() || ip.dst.is_limited_broadcast() {
        return Ok(());
    }
    c.stats.inc("neigh.unicast-frames-checked");
    // later fragments of a datagram follow its first fragment (checked below); freshness is judged at the first
    let later_fragment = ip.v4.as_ref().map(|v| v.frag_off > 0).unwrap_or(false);
    if on && !later_fragment {
        let nh = next_hop(c, &ip.dst);
        let Some(nh) = nh else {
            return Err(viol("C16", "next-hop", "C16.route/sent-without-route", format!("unicast frame to {} sent although the destination is off-link and no unexpired route matches: {}", ip.dst, sm)));
        };
        let t = c.learned.get(&(nh.clone(), eth.dst)).copied();
        // a fragmented datagram is resolved when it enters the fragmenter, possibly one poll before its first
        // fragment can leave (device back-pressure): the entry must have been fresh at that poll
        let is_frag = ip.v4.as_ref().map(|v| v.mf).unwrap_or(false);
        let at = if is_frag { c.prev_poll.min(c.now) } else { c.now };
        let fresh = t.map(|t| at - t < 60_000_000).unwrap_or(false);
        if !fresh {
            let why = if eth.dst[0] & 1 == 1 {
                "non-unicast-or-guessed-hardware-address"
            } else if c.spoof_macs.contains(&eth.dst) {
                "spoofed-hardware-address-used"
            } else if t.is_some() {
                "entry-used-60s-after-last-confirmation"
            } else if c.learned.keys().any(|(i, m)| *m == eth.dst && *i != nh) {
                "hardware-address-of-a-different-next-hop"
            } else {
                "never-learned-hardware-address"
            };
            return Err(viol(
                "C16",
                "next-hop",
                format!("C16.l2dst/{}", why),
                format!("unicast frame to {} (next hop {}) sent to hardware address {:02x?} at t={} us; valid announcements for that next hop: {:?} ; {}", ip.dst, nh, eth.dst, c.now, c.learned.iter().filter(|((i, _), _)| *i == nh).map(|((_, m), t)| (*m, *t)).collect::<Vec<_>>(), sm),
            ));
        }
    }
    // ---- all fragments of one datagram go where its first fragment went
    if let Some(v4) = &ip.v4 {
        if v4.mf || v4.frag_off > 0 {
            c.stats.inc("neigh.egress-fragments");
            if v4.frag_off == 0 {
                c.frag_l2.insert(v4.ident, eth.dst);
            } else if let Some(first) = c.frag_l2.get(&v4.ident) {
                if *first != eth.dst {
                    let msg = format!("fragment at offset {} of the datagram with ident {} to {} went to hardware address {:02x?}, its first fragment to {:02x?}", v4.frag_off, v4.ident, ip.dst, eth.dst, first);
                    if c.props.has("C12") {
                        return Err(viol("C12", "tx-fragments", "C12.tx/fragments-of-one-datagram-to-different-hardware-addresses", msg));
                    }
                    if on {
                        return Err(viol("C16", "next-hop", "C16.l2dst/fragments-of-one-datagram-to-different-hardware-addresses", msg));
                    }
                }
            }
            // first fragment of a UDP datagram of ours: it is the head of its socket's queue
            if v4.frag_off == 0 && ip.proto == P_UDP && ip.payload.len() >= 8 {
                let sport = u16::from_be_bytes([ip.payload[0], ip.payload[1]]);
                let dport = u16::from_be_bytes([ip.payload[2], ip.payload[3]]);
                let part = &ip.payload[8..];
                if let Some(k) = c.socks.iter().position(|s| s.1 == sport) {
                    let head_ok = c.socks[k].2.front().map(|q| q.dst == ip.dst && q.dport == dport && q.payload.len() >= part.len() && q.payload[..part.len()] == *part).unwrap_or(false);
                    if head_ok {
                        c.socks[k].2.pop_front();
                        c.stats.inc("neigh.datagrams-transmitted");
                    } else if on {
                        return Err(viol("C16", "queue", "C16.queue/earlier-datagram-lost-while-unresolved", format!("socket :{} started transmitting a fragmented datagram to {}:{} that is not the head of its queue ({} queued)", sport, ip.dst, dport, c.socks[k].2.len())));
                    }
                }
            }
            return Ok(());
        }
    }
    // ---- socket FIFO: nothing lost while unresolved
    if let Some((_, u)) = p.udp() {
        if let Some(k) = c.socks.iter().position(|s| s.1 == u.sport) {
            let head_ok = c.socks[k].2.front().map(|q| q.dst == ip.dst && q.dport == u.dport && q.payload == u.payload).unwrap_or(false);
            if head_ok {
                c.socks[k].2.pop_front();
                c.stats.inc("neigh.datagrams-transmitted");
            } else if on {
                let later = c.socks[k].2.iter().position(|q| q.dst == ip.dst && q.dport == u.dport && q.payload == u.payload);
                let sig = if later.is_some() { "C16.queue/earlier-datagram-lost-while-unresolved" } else { "C16.queue/datagram-transmitted-twice-or-unknown" };
                return Err(viol("C16", "queue", sig, format!("socket :{} transmitted {} which is not the head of its queue ({} queued; position of this datagram in the queue: {:?})", u.sport, sm, c.socks[k].2.len(), later)));
            }
        }
    }
    Ok(())
}

fn pick_dst(c: &mut C) -> IpAddr {
    let nn = c.nbs.len() - 2;
    match c.tape.draw(8) {
        0 | 1 => off_link(c.v6, c.tape.draw(4) as u8),
        _ => c.nbs[c.tape.draw(nn as u64) as usize].ip.clone(),
    }
}

fn app(c: &mut C) -> Result<(), Violation> {
    let k = c.tape.draw(3) as usize;
    let dst = pick_dst(c);
    c.next_id += 1;
    let mut payload = c.next_id.to_be_bytes().to_vec();
    let extra = if c.frag_mode && c.tape.draw(2) == 0 { c.tape.range(280, 1000) as usize } else { c.tape.draw(20) as usize };
    payload.extend_from_slice(&vec![0x5a; extra]);
    let dport = 9000 + c.tape.draw(4) as u16;
    let h = c.socks[k].0;
    let so = c.node.sockets.get_mut::<udp::Socket>(h);
    let ep = IpEndpoint::new(to_smol(&dst), dport);
    let r = guard("udp::send_slice", || so.send_slice(&payload, ep))?;
    if r.is_ok() {
        let id = c.next_id;
        c.log(|| format!("app: socket {} sends #{} to {}", k, id, dst));
        c.socks[k].2.push_back(Q { dst, dport, payload });
        c.stats.inc("neigh.datagrams-sent");
    }
    Ok(())
}

fn scenario_switch(c: &mut C) -> Result<(), Violation> {
    match c.tape.draw(16) {
        0..=3 => {
            let who = c.tape.draw(c.nbs.len() as u64) as usize;
            c.nbs[who].policy = *c.tape.pick(&[Policy::Timely, Policy::Late, Policy::Absent, Policy::SpoofMac, Policy::SpoofOffLink, Policy::Timely]);
        }
        4 | 5 => {
            // unsolicited announcement (valid, non-unicast hardware address, or off-link)
            let who = c.tape.draw(c.nbs.len() as u64) as usize;
            let kind = *c.tape.pick(&[0u8, 0, 1, 2]);
            c.stats.inc("fault.unsolicited-announcement");
            announce(c, who, c.now + 1_000, kind, None);
        }
        6 => {
            // a neighbour changes its hardware address and announces it
            let who = c.tape.draw(c.nbs.len() as u64) as usize;
            c.nbs[who].mac[3] = c.nbs[who].mac[3].wrapping_add(1) & 0x7f;
            c.stats.inc("neigh.hardware-address-changed");
            announce(c, who, c.now + 1_000, 0, None);
        }
        7 if c.tape.draw(3) == 0 => {
            // route table change through the default-route helpers, both address families mixed: what counts for
            // this node's family is its last add that no remove of the same family followed
            let rt = c.node.iface.routes_mut();
            guard("routes::update", || rt.update(|v| v.clear()))?;
            let mut own: Option<IpAddr> = None;
            let n = 2 + c.tape.draw(4);
            for _ in 0..n {
                let gw_host = if c.tape.draw(2) == 0 { 254 } else { 253 };
                let k = c.tape.draw(4);
                let rt = c.node.iface.routes_mut();
                let v6 = c.v6;
                match k {
                    0 => {
                        let g = ip_of(false, gw_host);
                        let _ = guard("routes::add_default_ipv4_route", || rt.add_default_ipv4_route(smoltcp::wire::Ipv4Address::from(g.v4())))?;
                        if !v6 {
                            own = Some(g);
                        }
                    }
                    1 => {
                        let g = ip_of(true, gw_host);
                        let _ = guard("routes::add_default_ipv6_route", || rt.add_default_ipv6_route(smoltcp::wire::Ipv6Address::from(g.v6())))?;
                        if v6 {
                            own = Some(g);
                        }
                    }
                    2 => {
                        let _ = guard("routes::remove_default_ipv4_route", || rt.remove_default_ipv4_route())?;
                        if !v6 {
                            own = None;
                        }
                    }
                    _ => {
                        let _ = guard("routes::remove_default_ipv6_route", || rt.remove_default_ipv6_route())?;
                        if v6 {
                            own = None;
                        }
                    }
                }
            }
            let default = if c.v6 { IpAddr::V6([0; 16]) } else { IpAddr::V4([0; 4]) };
            c.routes = match own {
                Some(g) => vec![(default, 0, g, None)],
                None => vec![],
            };
            c.stats.inc("neigh.default-route-helpers-used");
        }
        7 | 8 => {
            // route table change
            let (sp, sl) = specific_prefix(c.v6);
            let g1 = ip_of(c.v6, 254);
            let g2 = ip_of(c.v6, 253);
            let default = if c.v6 { IpAddr::V6([0; 16]) } else { IpAddr::V4([0; 4]) };
            let exp = |c: &mut C| -> Option<i64> {
                match c.tape.draw(3) {
                    0 => None,
                    1 => Some(c.now + *c.tape.pick(&[500_000i64, 5_000_000, 70_000_000])),
                    _ => Some(c.now + c.tape.range(1, 30_000_000) as i64),
                }
            };
            let mut r = vec![];
            match c.tape.draw(5) {
                0 => {}
                1 => {
                    let e = exp(c);
                    r.push((default, 0, g1, e));
                }
                2 => {
                    let e = exp(c);
                    r.push((sp, sl, g2, e));
                }
                _ => {
                    let (e1, e2) = (exp(c), exp(c));
                    r.push((default, 0, g1, e1));
                    r.push((sp, sl, g2, e2));
                }
            }
            c.routes = r;
            c.stats.inc("neigh.route-table-changed");
            set_routes(c)?;
        }
        10 | 11 if c.frag_mode => big_echo_from_neighbour(c),
        12 if c.tape.draw(3) == 0 => {
            // the application gives the interface another hardware address: what the interface has learned about
            // its neighbours - and the pace of its solicitations - is not affected
            let mut m = c.my_mac;
            m[4] = m[4].wrapping_add(1);
            m[5] = 0x10 + c.tape.draw(16) as u8;
            c.my_mac = m;
            let iface = &mut c.node.iface;
            guard("Interface::set_hardware_addr", || iface.set_hardware_addr(smoltcp::wire::HardwareAddress::Ethernet(smoltcp::wire::EthernetAddress(m))))?;
            c.view.hw_addr = m.to_vec();
            c.stats.inc("neigh.own-hardware-address-changed");
        }
        9 => {
            // the node's own address changes within the subnet (the neighbour cache is flushed)
            let host = if c.my_addr == ip_of(c.v6, 1) { 2 } else { 1 };
            c.my_addr = ip_of(c.v6, host);
            let a = c.my_addr.clone();
            let plen = c.plen;
            let iface = &mut c.node.iface;
            guard("update_ip_addrs", || {
                iface.update_ip_addrs(|v| {
                    v.clear();
                    let _ = v.push(IpCidr::new(to_smol(&a), plen));
                })
            })?;
            c.view.addrs = vec![(c.my_addr.clone(), plen)];
            c.stats.inc("neigh.own-address-changed");
        }
        _ => {}
    }
    Ok(())
}

fn advance(c: &mut C) -> Result<(), Violation> {
    let now = c.now;
    let pa = c.node.poll_at(now)?;
    c.inflight.sort_by_key(|x| (x.0, x.1));
    let nf = c.inflight.first().map(|x| x.0);
    let mut next = match c.tape.draw(10) {
        // exactly per poll_at / next arrival
        0..=4 => [pa, nf].iter().flatten().min().copied().unwrap_or(c.now + 1_000_000),
        5 => c.now + c.tape.range(1, 5_000) as i64,
        6 => c.now + c.tape.range(100_000, 1_500_000) as i64,
        // land on / around the rate-limit boundary
        7 => c.last_solicit.map(|t| t + 1_000_000 + *c.tape.pick(&[0i64, -1, 1, -1000])).unwrap_or(c.now + 1_000_000),
        // land on / around the expiry of a learned entry
        8 => {
            let ts: Vec<i64> = c.learned.values().copied().collect();
            if ts.is_empty() {
                c.now + 10_000_000
            } else {
                ts[c.tape.draw(ts.len() as u64) as usize] + 60_000_000 + *c.tape.pick(&[0i64, -1, 1, -500_000, 1_000_000])
            }
        }
        _ => c.now + c.tape.range(1_000_000, 70_000_000) as i64,
    };
    if let Some(f) = nf {
        // never skip an arrival
        next = next.min(f.max(c.now));
    }
    c.now = next.max(c.now);
    Ok(())
}

fn body(c: &mut C, thorough: bool) -> Result<(), Violation> {
    // initial routes
    c.routes = vec![(if c.v6 { IpAddr::V6([0; 16]) } else { IpAddr::V4([0; 4]) }, 0, ip_of(c.v6, 254), None)];
    set_routes(c)?;
    let steps = c.tape.range(10, if thorough { 600 } else { 200 });
    for _ in 0..steps {
        if c.tape.draw(3) != 0 {
            app(c)?;
        }
        scenario_switch(c)?;
        poll(c)?;
        advance(c)?;
    }
    // ---- before the final phase: everybody answers, the route table stays as the run left it (entries may still
    // expire). A datagram at the head of a socket queue whose destination is on-link or matched by an unexpired route
    // at the end of these 30 s was routable throughout and must have left - also when a more specific route that
    // used to cover it has expired in the meantime
    c.final_phase = true;
    {
        let t_end = c.now + 30_000_000;
        for _ in 0..400 {
            poll(c)?;
            let now = c.now;
            let pa = c.node.poll_at(now)?;
            c.inflight.sort_by_key(|x| (x.0, x.1));
            let nf = c.inflight.first().map(|x| x.0);
            let next = [pa, nf].iter().flatten().min().copied().unwrap_or(c.now + 1_000_000).max(c.now + 1);
            if next > t_end {
                break;
            }
            c.now = next;
        }
        if c.props.has("C16") {
            for (k, s) in c.socks.iter().enumerate() {
                if let Some(q) = s.2.front() {
                    if next_hop(c, &q.dst).is_some() {
                        return Err(viol("C16", "queue", "C16.queue/routable-datagram-not-transmitted", format!("socket {} still holds a datagram to {} after 30 s in which every neighbour answered and an unexpired route (or the subnet) covered the destination all along", k, q.dst)));
                    }
                }
            }
        }
    }
    // ---- final phase: everybody answers, routes are back; every queued datagram must go out
    c.routes = vec![(if c.v6 { IpAddr::V6([0; 16]) } else { IpAddr::V4([0; 4]) }, 0, ip_of(c.v6, 254), None), {
        let (sp, sl) = specific_prefix(c.v6);
        (sp, sl, ip_of(c.v6, 253), None)
    }];
    set_routes(c)?;
    for _ in 0..400 {
        poll(c)?;
        if c.socks.iter().all(|s| s.2.is_empty()) && c.inflight.is_empty() {
            break;
        }
        let now = c.now;
        let pa = c.node.poll_at(now)?;
        c.inflight.sort_by_key(|x| (x.0, x.1));
        let nf = c.inflight.first().map(|x| x.0);
        c.now = [pa, nf].iter().flatten().min().copied().unwrap_or(c.now + 1_000_000).max(c.now);
    }
    if c.props.has("C16") {
        if let Some((k, s)) = c.socks.iter().enumerate().find(|(_, s)| !s.2.is_empty()) {
            let q = s.2.front().unwrap();
            return Err(viol("C16", "queue", "C16.queue/datagram-never-transmitted", format!("socket {} still holds {} datagram(s) (head to {}) although every neighbour answered solicitations for {} s", k, s.2.len(), q.dst, c.now / 1_000_000)));
        }
    }
    Ok(())
}
