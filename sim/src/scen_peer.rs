//! T2 scenarios: one real node + a scripted TCP peer written on the harness codec.
//!  * mode Receiver  -> C04 (reference receiver model)
//!  * mode Sender    -> C05(b) (adversarial receiver, strict window/MSS/content monitor)
//!  * mode States    -> C17 (transition acceptor, one stimulus at a time)

use crate::codec::*;
use crate::core::*;
use crate::mk::*;
use crate::tap::{self, NodeView};
use crate::tape::{stream_byte, LogHash, Tape};
use smoltcp::iface::SocketHandle;
use smoltcp::socket::tcp;
use smoltcp::time::Duration;

#[derive(Clone, Copy, PartialEq, Eq, Debug)]
pub enum Mode {
    Receiver,
    Sender,
    States,
}

pub struct Ctx<'a> {
    pub tape: &'a mut Tape,
    pub props: Props,
    pub node: Node,
    pub view: NodeView,
    pub h: SocketHandle,
    pub now: i64,
    pub stats: Stats,
    pub hash: LogHash,
    pub trace: Vec<String>,
    pub trace_on: bool,
    pub v_addr: IpAddr,
    pub p_addr: IpAddr,
    pub v_port: u16,
    pub p_port: u16,
    pub events: u64,
    // ---- what the peer knows from the wire
    /// victim's initial sequence number (from its SYN / SYN-ACK)
    pub iss_v: Option<u32>,
    /// highest seq+len the victim has sent
    pub v_snd_max: u32,
    /// latest ACK number seen from the victim
    pub v_ack: u32,
    /// highest right edge the victim has advertised (absolute seq), None before the first ACK
    pub v_edge: Option<u32>,
    /// right edge advertised by the victim's latest ACK
    pub v_edge_last: Option<u32>,
    /// the victim's window-scale option in its SYN (None = not offered)
    pub v_ws: Option<u8>,
    /// whether the peer offered window scaling
    pub p_ws: Option<u8>,
    pub p_mss: Option<u16>,
    /// peer's initial sequence number
    pub irs: u32,
    /// victim's MSS option
    pub v_mss: Option<u16>,
    /// window field of the victim's bare SYN (active open), valid until its first ACK
    pub v_syn_win: Option<u16>,
    /// keep-alive is configured on the victim socket (else nothing is ever taken for a keep-alive)
    pub ka_enabled: bool,
    pub last_v_frames: Vec<Packet>,
    /// the peer uses the timestamps option (RFC 7323): on its SYN / SYN-ACK and then on every segment but resets
    pub p_ts: bool,
    /// latest timestamp value seen from the victim (echoed by the peer)
    pub v_tsval: u32,
}

impl<'a> Ctx<'a> {
    pub fn log(&mut self, f: impl FnOnce() -> String) {
        if self.trace_on && self.trace.len() < 3000 {
            let s = f();
            self.trace.push(format!("t={:>12.6}s {}", self.now as f64 / 1e6, s));
        }
    }
    fn shift(&self) -> u32 {
        match (self.v_ws, self.p_ws) {
            (Some(s), Some(_)) => s as u32,
            _ => 0,
        }
    }
    /// Observe frames emitted by the victim: generic monitors + peer knowledge.
    pub fn absorb(&mut self, info: &PollInfo) -> Result<Vec<Packet>, Violation> {
        let mut out = vec![];
        for raw in &info.tx {
            self.hash.bytes(raw);
            self.stats.inc("frames.tx");
            let pkt = tap::check_frame(self.props, &self.view, raw, &mut self.stats)?;
            if let Some(p) = pkt {
                let s = p.summary();
                self.log(|| format!("V tx {}", s));
                if let Some((_, t)) = p.tcp() {
                    if let Some((v, _)) = t.opts.ts {
                        self.v_tsval = v;
                    }
                    if t.has(F_SYN) {
                        self.iss_v = Some(t.seq);
                        self.v_ws = t.opts.wscale;
                        self.v_mss = t.opts.mss;
                        self.v_snd_max = t.seq;
                        self.v_syn_win = if t.has(F_ACK) { None } else { Some(t.win) };
                    }
                    let end = t.seq.wrapping_add(t.seg_len());
                    let old_snd_max = self.v_snd_max;
                    if seq_lt(self.v_snd_max, end) {
                        self.v_snd_max = end;
                    }
                    // a keep-alive (one garbage byte before SND.NXT) is discarded by a conformant
                    // receiver without looking at its ACK number and window
                    let keepalive = self.ka_enabled && t.payload.len() == 1 && !t.has(F_SYN) && !t.has(F_FIN) && seq_lt(t.seq, old_snd_max) && end == old_snd_max && t.payload[0] == 0;
                    if t.has(F_ACK) && !t.has(F_RST) && !keepalive {
                        self.v_ack = t.ack;
                        let sh = if t.has(F_SYN) { 0 } else { self.shift() };
                        let e = t.ack.wrapping_add((t.win as u32) << sh);
                        self.v_edge_last = Some(e);
                        if self.v_edge.map(|x| seq_lt(x, e)).unwrap_or(true) {
                            self.v_edge = Some(e);
                        }
                    }
                }
                out.push(p);
            }
        }
        self.last_v_frames = out.clone();
        Ok(out)
    }
    /// A poll during which the device has no free transmit slot (nothing can leave the node).
    pub fn poll_tx_refused(&mut self) -> Result<Vec<Packet>, Violation> {
        self.node.dev.tx_budget = Some(0);
        let r = self.poll();
        self.node.dev.tx_budget = None;
        self.stats.inc("fault.tx-ring-refused");
        r
    }
    pub fn poll(&mut self) -> Result<Vec<Packet>, Violation> {
        self.events += 1;
        self.hash.u64(self.now as u64);
        let info = self.node.poll(self.now)?;
        self.absorb(&info)
    }
    /// Deliver one frame alone.
    pub fn inject(&mut self, ip: Vec<u8>) -> Result<Vec<Packet>, Violation> {
        self.events += 1;
        self.hash.u64(self.now as u64);
        self.hash.bytes(&ip);
        self.node.dev.rx.push_back(ip);
        let info = self.node.poll_ingress_single(self.now)?;
        self.absorb(&info)
    }
    pub fn egress(&mut self) -> Result<Vec<Packet>, Violation> {
        self.events += 1;
        self.hash.u64(self.now as u64);
        let info = self.node.poll_egress(self.now)?;
        self.absorb(&info)
    }
    pub fn sock(&mut self) -> &mut tcp::Socket<'static> {
        self.node.sockets.get_mut::<tcp::Socket>(self.h)
    }
    pub fn seg(&self, t: &Tcp) -> Vec<u8> {
        let mut t = t.clone();
        t.sport = self.p_port;
        t.dport = self.v_port;
        if self.p_ts && t.flags & F_RST == 0 && t.opts.ts.is_none() && t.opts.sack.len() < 4 {
            t.opts.ts = Some(((self.now / 1000) as u32, self.v_tsval));
        }
        let l4 = enc_tcp(&self.p_addr, &self.v_addr, &t);
        enc_ip(&self.p_addr, &self.v_addr, P_TCP, 64, &l4)
    }
}

pub struct Setup {
    pub v6: bool,
    pub rx: usize,
    pub tx: usize,
    pub mtu: usize,
    pub victim_listens: bool,
    pub desc: String,
}

fn pick_rx(t: &mut Tape) -> usize {
    *t.pick(&[2048usize, 1, 4, 16, 64, 100, 256, 1000, 4096, 65535, 65536, 100_000, 262_144])
}

/// Build the victim, run a correct handshake. Returns None if the handshake did not complete
/// (which the States mode may do on purpose).
pub fn setup<'a>(tape: &'a mut Tape, props: Props, trace_on: bool, mode: Mode) -> (Ctx<'a>, Setup) {
    let v6 = tape.draw(2) == 1;
    let rx = if mode == Mode::Sender { *tape.pick(&[2048usize, 64, 256, 4096]) } else { pick_rx(tape) };
    let tx = if mode == Mode::Receiver { *tape.pick(&[2048usize, 64, 256]) } else { *tape.pick(&[4096usize, 64, 256, 1024, 2048, 16384, 65535, 100_000]) };
    let mtu = if v6 { *tape.pick(&[1500usize, 1280, 1400]) } else { *tape.pick(&[1500usize, 576, 128, 68, 300, 1006]) };
    let mut cfg = NodeCfg::basic('V', Medium::Ip, mtu, 1, v6);
    let ws = crate::scen_tcp::wrap_seeds();
    let mut note = String::new();
    if tape.draw(4) == 3 && !ws.is_empty() {
        let (s, isn) = ws[tape.draw(ws.len() as u64) as usize];
        cfg.seed = s;
        note = format!(" iss_v={:#x}", isn);
    } else {
        cfg.seed = 7 + tape.draw(1 << 20);
    }
    let mut node = build_node(&cfg);
    let view = cfg.view();
    let mut s = tcp::Socket::new(tcp::SocketBuffer::new(vec![0; rx]), tcp::SocketBuffer::new(vec![0; tx]));
    let ack_delay = match tape.draw(4) {
        0 => Some(10_000u64),
        1 => None,
        2 => Some(200_000),
        _ => Some(1_000),
    };
    s.set_ack_delay(ack_delay.map(Duration::from_micros));
    let nagle = tape.draw(2) == 0;
    s.set_nagle_enabled(nagle);
    let cc = tape.draw(3);
    s.set_congestion_control(match cc {
        0 => tcp::CongestionControl::None,
        1 => tcp::CongestionControl::Reno,
        _ => tcp::CongestionControl::Cubic,
    });
    let ts = tape.draw(4) == 3;
    if ts {
        s.set_tsval_generator(Some(tsval_gen));
    }
    let ka = if tape.draw(5) == 4 { Some(1_000_000u64) } else { None };
    s.set_keep_alive(ka.map(Duration::from_micros));
    let h = node.sockets.add(s);
    let victim_listens = tape.draw(2) == 0;
    let irs = match tape.draw(4) {
        0 => 5000u32,
        1 => 0xffff_ff00u32.wrapping_add(tape.draw(512) as u32),
        2 => 0x7fff_ff00u32.wrapping_add(tape.draw(512) as u32),
        _ => tape.draw(u32::MAX as u64) as u32,
    };
    let p_ws = match tape.draw(4) {
        0 => Some(0u8),
        1 => None,
        2 => Some(tape.range(1, 14) as u8),
        // (a shift count above 14 is legal on the wire and means 14: RFC 7323 2.3)
        _ => Some(*tape.pick(&[7u8, 7, 14, 15, 255])),
    };
    let p_mss = match tape.draw(8) {
        0 => Some(1460u16),
        1 => None,
        2 => Some(0),
        3 => Some(1),
        4 => Some(47),
        5 => Some(48),
        6 => Some(536),
        _ => Some(65535),
    };
    let v_addr = cfg.addrs[0].0;
    let p_addr = if v6 {
        let mut a = [0u8; 16];
        a[0] = 0xfd;
        a[15] = 2;
        IpAddr::V6(a)
    } else {
        IpAddr::V4([10, 0, 0, 2])
    };
    let desc = format!(
        "tcp-peer mode={:?} v6={} rx={} tx={} mtu={} ackdelay={:?} nagle={} cc={} ts={} keepalive={:?} victim_listens={} irs={:#x} p_ws={:?} p_mss={:?}{}",
        mode, v6, rx, tx, mtu, ack_delay, nagle, cc, ts, ka, victim_listens, irs, p_ws, p_mss, note
    );
    let ctx = Ctx {
        tape,
        props,
        node,
        view,
        h,
        now: 1_000_000,
        stats: Stats::default(),
        hash: LogHash::new(),
        trace: vec![],
        trace_on,
        v_addr,
        p_addr,
        v_port: if victim_listens { 80 } else { 40000 },
        p_port: if victim_listens { 50000 } else { 80 },
        events: 0,
        iss_v: None,
        v_snd_max: 0,
        v_ack: 0,
        v_edge: None,
        v_edge_last: None,
        v_ws: None,
        p_ws,
        p_mss,
        irs,
        v_mss: None,
        v_syn_win: None,
        ka_enabled: ka.is_some(),
        last_v_frames: vec![],
        p_ts: false,
        v_tsval: 0,
    };
    (ctx, Setup { v6, rx, tx, mtu, victim_listens, desc })
}

/// A correct three-way handshake. After it the victim is ESTABLISHED (checked).
pub fn handshake(c: &mut Ctx, su: &Setup, p_win: u16) -> Result<bool, Violation> {
    // a third of the peers use timestamps - with or without offering selective acknowledgements
    c.p_ts = c.tape.draw(3) == 0;
    let ts = None;
    if su.victim_listens {
        let port = c.v_port;
        guard("tcp::listen", || c.node.sockets.get_mut::<tcp::Socket>(c.h).listen(port).unwrap())?;
        // sometimes another peer's connection attempt is cut short by a reset first: the listener goes back to
        // LISTEN (without being re-armed by the application) and must not keep anything it negotiated
        if c.tape.draw(6) == 5 {
            let real_port = c.p_port;
            c.p_port = real_port.wrapping_add(7).max(1024);
            let other_ws = if c.p_ws.is_some() { None } else { Some(7) };
            let other_mss = if c.p_mss == Some(1460) { Some(200) } else { Some(1460) };
            let syn = Tcp { seq: c.irs.wrapping_add(50_000), ack: 0, flags: F_SYN, win: 65535, opts: TcpOpts { mss: other_mss, wscale: other_ws, sack_perm: true, sack: vec![], ts: None }, ..Tcp::default() };
            let f = c.seg(&syn);
            c.log(|| "P' tx SYN (attempt that will be reset)".into());
            c.inject(f)?;
            c.poll()?;
            if let Some(iss) = c.iss_v {
                let rst = Tcp { seq: c.irs.wrapping_add(50_001), ack: iss.wrapping_add(1), flags: F_RST | F_ACK, win: 0, ..Tcp::default() };
                let f = c.seg(&rst);
                c.log(|| "P' tx RST".into());
                c.inject(f)?;
                c.poll()?;
            }
            c.stats.inc("peer.aborted-handshake-before-the-real-one");
            c.p_port = real_port;
            c.iss_v = None;
            c.v_edge = None;
            c.v_edge_last = None;
            c.v_syn_win = None;
            c.now += 1_000_000;
            if c.sock().state() != tcp::State::Listen {
                return Ok(false);
            }
        }
        let syn = Tcp { seq: c.irs, ack: 0, flags: F_SYN, win: p_win, opts: TcpOpts { mss: c.p_mss, wscale: c.p_ws, sack_perm: c.tape.draw(2) == 1, sack: vec![], ts }, ..Tcp::default() };
        let f = c.seg(&syn);
        c.log(|| "P tx SYN".into());
        c.inject(f)?;
        c.poll()?;
        let Some(iss) = c.iss_v else { return Ok(false) };
        let ack = Tcp { seq: c.irs.wrapping_add(1), ack: iss.wrapping_add(1), flags: F_ACK, win: p_win, ..Tcp::default() };
        let f = c.seg(&ack);
        c.log(|| "P tx ACK (handshake)".into());
        c.inject(f)?;
        c.poll()?;
    } else {
        let remote = (to_smol(&c.p_addr), c.p_port);
        let lport = c.v_port;
        let n = &mut c.node;
        let cx = n.iface.context();
        let s = n.sockets.get_mut::<tcp::Socket>(c.h);
        guard("tcp::connect", || s.connect(cx, remote, lport).unwrap())?;
        c.poll()?;
        let Some(iss) = c.iss_v else { return Ok(false) };
        let synack = Tcp { seq: c.irs, ack: iss.wrapping_add(1), flags: F_SYN | F_ACK, win: p_win, opts: TcpOpts { mss: c.p_mss, wscale: c.p_ws, sack_perm: false, sack: vec![], ts }, ..Tcp::default() };
        let f = c.seg(&synack);
        c.log(|| "P tx SYN-ACK".into());
        c.inject(f)?;
        c.poll()?;
    }
    Ok(c.sock().state() == tcp::State::Established)
}

fn outcome(c: Ctx, viol: Option<Violation>, nontrivial: bool, desc: String) -> Outcome {
    let mut stats = c.stats;
    stats.add("sim.seconds", (c.now / 1_000_000) as u64);
    Outcome { viol, stats, hash: c.hash, nontrivial, trace: c.trace, sim_us: c.now, events: c.events, cfg_desc: desc }
}

// =============================================================================================
// C04: reference receiver

struct Ranges(Vec<(u64, u64)>);
impl Ranges {
    fn add(&mut self, a: u64, b: u64) {
        if a >= b {
            return;
        }
        self.0.push((a, b));
        self.0.sort();
        let mut out: Vec<(u64, u64)> = vec![];
        for (x, y) in self.0.drain(..) {
            if let Some(l) = out.last_mut() {
                if x <= l.1 {
                    l.1 = l.1.max(y);
                    continue;
                }
            }
            out.push((x, y));
        }
        self.0 = out;
    }
    fn prefix(&self) -> u64 {
        match self.0.first() {
            Some((0, b)) => *b,
            _ => 0,
        }
    }
}

pub fn run_receiver(tape: &mut Tape, props: Props, thorough: bool, trace_on: bool) -> Outcome {
    let (mut c, su) = setup(tape, props, trace_on, Mode::Receiver);
    let desc = su.desc.clone();
    let mut r = receiver_body(&mut c, &su, thorough);
    // ---- the same socket object serves a second connection after the first one was reset (possibly with
    // out-of-order data still parked behind a hole): nothing of the first may leak into the second
    if r.is_ok() && c.tape.draw(3) == 2 {
        r = reuse_socket(&mut c).and_then(|again| if again { receiver_body(&mut c, &su, thorough) } else { Ok(()) });
    }
    let nontrivial = c.stats.get("c04.segments-sent") >= 3 && (c.stats.get("c04.seg-overlap-or-ooo") + c.stats.get("c04.seg-beyond-window")) > 0;
    let v = r.err();
    outcome(c, v, nontrivial, desc)
}

/// End the current connection with an in-sequence RST (or abort() by the application) and prepare the peer
/// for a fresh one on the same victim socket. Returns false when the socket is not reusable right away.
fn reuse_socket(c: &mut Ctx) -> Result<bool, Violation> {
    let st = c.sock().state();
    if st != tcp::State::Closed && st != tcp::State::Listen {
        if c.tape.draw(2) == 0 {
            let rst = Tcp { seq: c.v_ack, ack: c.v_snd_max, flags: F_RST | F_ACK, win: 0, ..Tcp::default() };
            let f = c.seg(&rst);
            c.log(|| "P tx RST (ending the first connection)".into());
            c.inject(f)?;
        } else {
            let s = c.sock();
            guard("tcp::abort", || s.abort())?;
            c.log(|| "victim application aborts the first connection".into());
        }
        c.poll()?;
    }
    let st = c.sock().state();
    if st != tcp::State::Closed && st != tcp::State::Listen && st != tcp::State::TimeWait {
        return Ok(false);
    }
    if st != tcp::State::Closed {
        let s = c.sock();
        guard("tcp::abort", || s.abort())?;
        c.poll()?;
    }
    // drain what the application had not read yet
    let s = c.sock();
    guard("tcp::recv", || {
        while let Ok(n) = s.recv(|b| (b.len(), b.len())) {
            if n == 0 {
                break;
            }
        }
    })?;
    c.stats.inc("c04.socket-reused");
    c.now += 1_000_000 + c.tape.draw(5_000_000) as i64;
    c.p_port = c.p_port.wrapping_add(1).max(1024);
    c.irs = c.tape.draw(u32::MAX as u64) as u32;
    c.iss_v = None;
    c.v_edge = None;
    c.v_edge_last = None;
    c.v_syn_win = None;
    c.last_v_frames.clear();
    Ok(true)
}

fn receiver_body(c: &mut Ctx, su: &Setup, thorough: bool) -> Result<(), Violation> {
    let key = c.tape.draw(u64::MAX) | 1;
    // total stream length of the peer, FIN exactly at its end
    let total: u64 = match c.tape.draw(5) {
        0 => c.tape.range(1, 3 * su.rx as u64 + 10),
        1 => c.tape.range(0, 40),
        2 => c.tape.range(0, (su.rx as u64).min(3000)),
        3 => c.tape.range(0, 70_000),
        _ => c.tape.range(0, 300_000.min(8 * su.rx as u64 + 100)),
    };
    if !handshake(c, su, 4096)? {
        return Ok(());
    }
    let irs = c.irs;
    let data_seq0 = irs.wrapping_add(1);
    let mut sent = Ranges(vec![]);
    let mut fin_sent = false;
    let mut delivered: u64 = 0;
    let mut eof = false;
    let ingress_bursts = c.tape.draw(6) == 0;
    if ingress_bursts {
        c.stats.inc("c04.ingress-burst-runs");
    }
    let mut acked_beyond = false;
    // victim-side stream (so that ACK fields matter)
    let vkey = c.tape.draw(u64::MAX) | 2;
    let mut v_written: u64 = 0;
    let steps = if thorough { 400 } else { 120 };
    let victim_cap = su.rx as u64;
    for _step in 0..c.tape.range(5, steps) {
        let op = c.tape.draw(10);
        match op {
            0..=5 => {
                // ---- a segment, placed relative to what the victim has told us
                let nxt_off = seq_diff(c.v_ack, data_seq0).max(0) as u64; // victim's RCV.NXT as stream offset (may include FIN)
                let edge_off = c.v_edge.map(|e| seq_diff(e, data_seq0).max(0) as u64).unwrap_or(nxt_off);
                let win = edge_off.saturating_sub(nxt_off);
                let place = c.tape.draw(9);
                let k = c.tape.size(0, (win + 4).min(70_000));
                let start: u64 = match place {
                    0 => nxt_off,                               // exactly in sequence
                    1 => nxt_off.saturating_sub(k.max(1)),      // left of RCV.NXT / straddling
                    2 => nxt_off + k,                           // inside (out of order)
                    3 => edge_off.saturating_sub(k.max(1)),     // straddling the right edge
                    4 => edge_off,                              // at the right edge
                    5 => edge_off + k,                          // beyond
                    6 => sent.prefix(),                         // continue what we sent contiguously
                    7 => 0,
                    _ => c.tape.draw(total + 1),
                };
                let start = start.min(total);
                let maxlen = (total - start).min(if thorough { 65_000 } else { 20_000 }); // (an IP packet carries at most 65535 octets)
                let len = match c.tape.draw(6) {
                    0 => 0,
                    1 => maxlen.min(1),
                    2 => maxlen.min(win.max(1)),
                    3 => maxlen.min(2 * win + 1),
                    4 => maxlen.min(c.tape.size(0, 1500)),
                    _ => c.tape.draw(maxlen + 1),
                };
                // ingress-burst runs: half of the segments simply continue the stream up to the advertised right edge,
                // or a few octets past it (the edge the victim advertised last - nothing newer is on the wire)
                let (start, len) = if ingress_bursts && c.tape.draw(2) == 0 {
                    let s0 = sent.prefix().min(total);
                    let room = edge_off.saturating_sub(s0) + c.tape.draw(3);
                    (s0, room.min(total - s0).min(if thorough { 65_000 } else { 20_000 }))
                } else {
                    (start, len)
                };
                let at_end = start + len == total;
                let fin = at_end && c.tape.chance(1, 2);
                let psh = c.tape.chance(1, 4);
                // ACK field: mostly valid
                let v_nxt = c.v_snd_max;
                let ackf = match c.tape.draw(8) {
                    0 => v_nxt.wrapping_sub(c.tape.range(1, 70_000) as u32), // stale
                    1 => v_nxt.wrapping_add(c.tape.range(1, 70_000) as u32), // acks unsent data
                    _ => v_nxt,
                };
                if seq_lt(v_nxt, ackf) {
                    // the victim may accept an ACK for data it has buffered but not sent yet; from then
                    // on the peer no longer knows which ACK numbers are acceptable
                    acked_beyond = true;
                }
                let valid_ack = ackf == v_nxt && !acked_beyond;
                let pwin = *c.tape.pick(&[4096u16, 0, 1, 100, 65535]);
                let payload: Vec<u8> = (0..len).map(|j| stream_byte(key, start + j)).collect();
                let t = Tcp { seq: data_seq0.wrapping_add(start as u32), ack: ackf, flags: F_ACK | if fin { F_FIN } else { 0 } | if psh { F_PSH } else { 0 }, win: pwin, payload, ..Tcp::default() };
                c.stats.inc("c04.segments-sent");
                if start != nxt_off {
                    c.stats.inc("c04.seg-overlap-or-ooo");
                }
                if start + len > edge_off {
                    c.stats.inc("c04.seg-beyond-window");
                }
                if fin {
                    c.stats.inc("c04.fin-sent");
                }
                let summary = format!("P tx seq_off={} len={} fin={} ack={} (valid={}) win={}   [victim nxt_off={} edge_off={}]", start, len, fin, ackf, valid_ack, pwin, nxt_off, edge_off);
                c.log(|| summary.clone());
                let state_before = c.sock().state();
                let q_before = c.sock().recv_queue();
                let edge_before = c.v_edge;
                let prefix_before = sent.prefix();
                let edge_last_off = c.v_edge_last.map(|e| seq_diff(e, data_seq0).max(0) as u64).unwrap_or(0);
                let f = c.seg(&t);
                let frames = c.inject(f)?;
                // the peer has now sent these bytes
                sent.add(start, start + len);
                if fin {
                    fin_sent = true;
                }
                check_acks(c, &frames, data_seq0, &sent, fin_sent, total, edge_before, &summary)?;
                // must-accept clause
                let in_states = matches!(state_before, tcp::State::Established | tcp::State::FinWait1 | tcp::State::FinWait2);
                if c.props.has("C04") && in_states && valid_ack && len > 0 && start == nxt_off && start == prefix_before && start + len <= edge_last_off && !eof {
                    let q_after = c.sock().recv_queue();
                    // data already buffered out of order may make the queue grow by more than len
                    if (q_after as u64) < q_before as u64 + len {
                        return Err(viol(
                            "C04",
                            "must-accept",
                            "C04.must-accept/in-window-in-sequence-dropped",
                            format!("an in-sequence segment wholly inside the advertised window with a valid ACK was not accepted: {} ; recv_queue {} -> {}", summary, q_before, q_after),
                        ));
                    }
                    c.stats.inc("c04.must-accept-checked");
                }
                // (in "ingress burst" runs the node takes in several frames before it gets round to transmitting:
                // what it accepts meanwhile is still bounded by the window it advertised last)
                if !ingress_bursts || c.tape.draw(4) == 0 {
                    let more = c.poll()?;
                    check_acks(c, &more, data_seq0, &sent, fin_sent, total, c.v_edge, &summary)?;
                }
            }
            6 | 7 => {
                // ---- application read
                let chunk = c.tape.size(1, 2 * victim_cap.max(1)) as usize;
                let mut buf = vec![0u8; chunk];
                let r = {
                    let s = c.node.sockets.get_mut::<tcp::Socket>(c.h);
                    guard("tcp::recv_slice", || s.recv_slice(&mut buf))?
                };
                match r {
                    Ok(k) => {
                        for j in 0..k {
                            let exp = stream_byte(key, delivered + j as u64);
                            if buf[j] != exp && c.props.has("C04") {
                                return Err(viol("C04", "stream", "C04.stream/wrong-byte", format!("delivered byte {:#04x} at offset {} where the peer's byte is {:#04x}", buf[j], delivered + j as u64, exp)));
                            }
                        }
                        delivered += k as u64;
                        c.log(|| format!("app read {} (total {})", k, delivered));
                        if c.props.has("C04") {
                            if delivered > sent.prefix() {
                                return Err(viol("C04", "stream", "C04.stream/delivered-unsent", format!("delivered {} bytes but the peer has only sent the contiguous prefix {}", delivered, sent.prefix())));
                            }
                            if let Some(e) = c.v_edge {
                                let eo = seq_diff(e, data_seq0);
                                if (delivered as i64) > eo {
                                    return Err(viol("C04", "window", "C04.window/delivered-beyond-advertised", format!("delivered {} bytes but the highest advertised right edge is offset {}", delivered, eo)));
                                }
                            }
                        }
                        c.stats.add("app.bytes-delivered", k as u64);
                    }
                    Err(tcp::RecvError::Finished) => {
                        if !eof {
                            c.stats.inc("app.finished");
                        }
                        eof = true;
                        if c.props.has("C04") && (delivered != total || !fin_sent) {
                            return Err(viol("C04", "finished", "C04.finished/early", format!("Finished reported after {} bytes; the peer's FIN is at {} (fin_sent={})", delivered, total, fin_sent)));
                        }
                    }
                    Err(tcp::RecvError::InvalidState) => {}
                }
                // sometimes the window update cannot leave the node in this poll (device back-pressure)
                let fr = if c.tape.draw(5) == 4 { c.poll_tx_refused()? } else { c.poll()? };
                check_acks(c, &fr, data_seq0, &sent, fin_sent, total, c.v_edge, "after read")?;
            }
            8 => {
                // ---- victim writes a little (so that our ACK field has something to cover)
                let n = c.tape.size(1, 600) as usize;
                let buf: Vec<u8> = (0..n as u64).map(|j| stream_byte(vkey, v_written + j) | 1).collect();
                let r = {
                    let s = c.node.sockets.get_mut::<tcp::Socket>(c.h);
                    guard("tcp::send_slice", || s.send_slice(&buf))?
                };
                if let Ok(k) = r {
                    v_written += k as u64;
                }
                let fr = c.poll()?;
                check_acks(c, &fr, data_seq0, &sent, fin_sent, total, c.v_edge, "after write")?;
            }
            _ => {
                let d = *c.tape.pick(&[1_000i64, 10_000, 200_000, 1_000_000, 5_000_000, 61_000_000]);
                c.now += d;
                let fr = c.poll()?;
                check_acks(c, &fr, data_seq0, &sent, fin_sent, total, c.v_edge, "after time advance")?;
            }
        }
    }
    if c.props.has("C02") {
        return honest_sender_epilogue(c, su, key, total, data_seq0, delivered, eof);
    }
    // ---- sometimes the peer resets the connection in the middle; the application keeps reading: whatever it
    // still gets is the peer's stream, and the end is never reported as graceful unless the FIN was delivered
    if c.tape.draw(3) == 2 {
        let rst = Tcp { seq: c.v_ack, ack: c.v_snd_max, flags: F_RST | F_ACK, win: 0, ..Tcp::default() };
        let f = c.seg(&rst);
        c.log(|| "P tx RST (in sequence)".into());
        c.inject(f)?;
        c.stats.inc("c04.peer-reset");
        for _ in 0..3 {
            let mut buf = vec![0u8; 4096];
            let r = {
                let s = c.node.sockets.get_mut::<tcp::Socket>(c.h);
                guard("tcp::recv_slice", || s.recv_slice(&mut buf))?
            };
            match r {
                Ok(k) => {
                    for j in 0..k {
                        let exp = stream_byte(key, delivered + j as u64);
                        if buf[j] != exp && c.props.has("C04") {
                            return Err(viol("C04", "stream", "C04.stream/wrong-byte", format!("after a reset: delivered byte {:#04x} at offset {} where the peer's byte is {:#04x}", buf[j], delivered + j as u64, exp)));
                        }
                    }
                    delivered += k as u64;
                    if k == 0 {
                        break;
                    }
                }
                Err(tcp::RecvError::Finished) => {
                    if c.props.has("C04") && !eof && (delivered != total || !fin_sent) {
                        return Err(viol("C04", "finished", "C04.finished/early", format!("after the peer reset the connection, Finished was reported after {} bytes; the peer's FIN is at {} (fin_sent={})", delivered, total, fin_sent)));
                    }
                    break;
                }
                Err(tcp::RecvError::InvalidState) => break,
            }
        }
    }
    Ok(())
}

/// C02 for the receiving side, with a scripted sender: after the adversarial phase (segments left of, inside, across
/// and beyond the window, out of order, duplicated, stale and bogus ACK fields) the peer turns into a plain correct
/// sender on a loss-free network - it (re)sends its stream in order from the victim's acknowledgment number, never
/// beyond the window the victim advertised last, probes a closed window with one octet once a second, ends with its
/// FIN and acknowledges everything the victim sends - while the victim's application reads whatever arrives and the
/// victim is polled per poll_at. Every octet of the stream and its end must then reach the application.
fn honest_sender_epilogue(c: &mut Ctx, su: &Setup, key: u64, total: u64, data_seq0: u32, mut delivered: u64, mut eof: bool) -> Result<(), Violation> {
    use tcp::State::*;
    if !matches!(c.sock().state(), Established | FinWait1 | FinWait2 | CloseWait | Closing | LastAck | TimeWait) {
        return Ok(());
    }
    c.stats.inc("c02.honest-sender-epilogues");
    let t0 = c.now;
    let mss = (c.v_mss.unwrap_or(536) as u64).clamp(1, 1400).min(su.mtu.saturating_sub(60).max(1) as u64);
    let mut last_progress = c.now;
    let mut mark = (u64::MAX, u64::MAX, false);
    let mut last_probe = c.now - 2_000_000;
    for round in 0..20_000u32 {
        // ---- the victim's application reads whatever is there
        loop {
            let mut buf = vec![0u8; 4096];
            let r = {
                let s = c.node.sockets.get_mut::<tcp::Socket>(c.h);
                guard("tcp::recv_slice", || s.recv_slice(&mut buf))?
            };
            match r {
                Ok(0) => break,
                Ok(k) => delivered += k as u64,
                Err(tcp::RecvError::Finished) => {
                    eof = true;
                    break;
                }
                Err(tcp::RecvError::InvalidState) => break,
            }
        }
        if eof && delivered >= total {
            c.stats.inc("c02.honest-sender-epilogues-completed");
            return Ok(());
        }
        let st = c.sock().state();
        if matches!(st, Closed | Listen | SynSent | SynReceived) {
            // (the connection is gone: reset or re-used by the adversarial phase - nothing to claim)
            return Ok(());
        }
        let _ = c.poll()?;
        // ---- the sender: in order from the acknowledgment number, inside the window advertised last
        let nxt_off = seq_diff(c.v_ack, data_seq0).max(0) as u64;
        let edge_off = c.v_edge_last.map(|e| seq_diff(e, data_seq0).max(0) as u64).unwrap_or(nxt_off);
        let now_mark = (delivered, nxt_off, eof);
        if now_mark != mark {
            mark = now_mark;
            last_progress = c.now;
        }
        if c.now - last_progress > 400_000_000 {
            return Err(viol("C02", "progress", format!("C02.progress/scripted-sender/state={},window{}", st_name(st), if edge_off > nxt_off { ">0" } else { "=0" }), format!("a correct sender on a loss-free network, the application reading everything, the victim polled per poll_at: no progress for 400 simulated seconds ({} of {} octets delivered to the application, end of stream {} reported; the victim acknowledges offset {} and advertises a window of {} octets; state {}; receive buffer {} octets; epilogue began at t={} us, now {} us)", delivered, total, if eof { "was" } else { "not" }, nxt_off, edge_off.saturating_sub(nxt_off), st_name(st), su.rx, t0, c.now)));
        }
        let ack = c.v_snd_max;
        if nxt_off <= total {
            let mut off = nxt_off;
            let mut sent_any = false;
            let mut budget = 16;
            while off < total && off < edge_off && budget > 0 {
                let len = (total - off).min(edge_off - off).min(mss);
                let fin = off + len == total;
                let payload: Vec<u8> = (0..len).map(|j| stream_byte(key, off + j)).collect();
                let t = Tcp { seq: data_seq0.wrapping_add(off as u32), ack, flags: F_ACK | if fin { F_FIN } else { 0 }, win: 4096, payload, ..Tcp::default() };
                let f = c.seg(&t);
                let _ = c.inject(f)?;
                off += len;
                sent_any = true;
                budget -= 1;
            }
            if !sent_any {
                if nxt_off == total {
                    // only the FIN is left: it needs no window
                    let t = Tcp { seq: data_seq0.wrapping_add(total as u32), ack, flags: F_ACK | F_FIN, win: 4096, ..Tcp::default() };
                    let f = c.seg(&t);
                    let _ = c.inject(f)?;
                } else if c.now - last_probe >= 1_000_000 {
                    // closed window: one octet beyond it, once a second
                    let t = Tcp { seq: data_seq0.wrapping_add(nxt_off as u32), ack, flags: F_ACK, win: 4096, payload: vec![stream_byte(key, nxt_off)], ..Tcp::default() };
                    let f = c.seg(&t);
                    let _ = c.inject(f)?;
                    last_probe = c.now;
                    c.stats.inc("c02.honest-sender-window-probes");
                }
            }
        } else {
            // everything, the FIN included, is acknowledged: keep acknowledging what the victim sends
            let t = Tcp { seq: data_seq0.wrapping_add(total as u32 + 1), ack, flags: F_ACK, win: 4096, ..Tcp::default() };
            let f = c.seg(&t);
            let _ = c.inject(f)?;
        }
        // ---- time: the victim's deadline, at most a second ahead
        match c.node.poll_at(c.now)? {
            Some(t) if t > c.now => c.now = t.min(c.now + 1_000_000),
            Some(_) => c.now += 1_000,
            None => c.now += 1_000_000,
        }
        if round == 19_999 {
            c.stats.inc("c02.honest-sender-epilogue-capped");
        }
    }
    Ok(())
}

/// ACK never covers what was not sent; never beyond the advertised window.
fn check_acks(c: &mut Ctx, frames: &[Packet], data_seq0: u32, sent: &Ranges, fin_sent: bool, total: u64, edge_before: Option<u32>, ctx: &str) -> Result<(), Violation> {
    if !c.props.has("C04") {
        return Ok(());
    }
    for p in frames {
        if let Some((_, t)) = p.tcp() {
            if !t.has(F_ACK) || t.has(F_RST) || t.has(F_SYN) {
                continue;
            }
            let ack_off = seq_diff(t.ack, data_seq0);
            let pre = sent.prefix();
            let fin_ok = fin_sent && pre == total;
            let limit = pre as i64 + if fin_ok { 1 } else { 0 };
            if ack_off > limit {
                let what = if ack_off == pre as i64 + 1 && fin_sent { "fin-not-in-sequence" } else { "unsent-bytes" };
                return Err(viol(
                    "C04",
                    "ack-covers-only-received",
                    format!("C04.ack/{}", what),
                    format!("victim acknowledged stream offset {} but the peer has sent only the contiguous prefix {} (fin_sent={}, total={}); last stimulus: {} ; segment: {}", ack_off, pre, fin_sent, total, ctx, p.summary()),
                ));
            }
            if let Some(e) = edge_before {
                let eo = seq_diff(e, data_seq0);
                // a FIN exactly at the right edge may be consumed (it carries no data)
                if ack_off > eo + 1 || (ack_off == eo + 1 && !(fin_ok && ack_off == total as i64 + 1)) {
                    return Err(viol(
                        "C04",
                        "window",
                        "C04.window/ack-beyond-advertised",
                        format!("victim acknowledged offset {} beyond the highest right edge {} it had advertised before; last stimulus: {} ; segment: {}", ack_off, eo, ctx, p.summary()),
                    ));
                }
            }
        }
    }
    Ok(())
}

// =============================================================================================
// C05(b): adversarial receiver; strict sender monitor

pub fn run_sender(tape: &mut Tape, props: Props, thorough: bool, trace_on: bool) -> Outcome {
    let (mut c, su) = setup(tape, props, trace_on, Mode::Sender);
    let desc = su.desc.clone();
    let r = sender_body(&mut c, &su, thorough);
    let nontrivial = c.stats.get("c05.data-segments") >= 3 && (c.stats.get("c05.win-shrunk") + c.stats.get("c05.win-zero") + c.stats.get("c05.dup-acks") + c.stats.get("tcp.retransmission")) > 0;
    let v = r.err();
    outcome(c, v, nontrivial, desc)
}

fn sender_body(c: &mut Ctx, su: &Setup, thorough: bool) -> Result<(), Violation> {
    let key = c.tape.draw(u64::MAX) | 1;
    let total: u64 = match c.tape.draw(4) {
        0 => c.tape.range(1, 5000),
        1 => c.tape.range(0, 100),
        2 => c.tape.range(0, 40_000),
        _ => c.tape.range(0, if thorough { 400_000 } else { 100_000 }),
    };
    let init_win = *c.tape.pick(&[4096u16, 0, 1, 10, 536, 65535]);
    if !handshake(c, su, init_win)? {
        return Ok(());
    }
    let iss = c.iss_v.unwrap();
    // runs whose initial sequence number lies shortly before the wrap: half of the time the stream is as long as it
    // takes for SND.NXT to come to rest on exactly 0 (a keep-alive sent then repeats sequence number 0xffffffff)
    let to_zero = 0u32.wrapping_sub(iss.wrapping_add(1)) as u64;
    let total = if (1..=100_000).contains(&to_zero) && c.tape.draw(2) == 0 {
        c.stats.inc("c05.stream-ends-at-sequence-number-zero");
        to_zero
    } else {
        total
    };
    let mut written: u64 = 0;
    let mut closed = false;
    // what the victim has been told, in order (all our ACKs are acceptable and delivered in order)
    let pshift: u32 = match (c.v_ws, c.p_ws) {
        (Some(_), Some(p)) => p.min(14) as u32,
        _ => 0,
    };
    let mut cur_ack: u32 = iss.wrapping_add(1);
    let mut p_fin_sent = false;
    // SYN/SYN-ACK windows are never scaled; the final ACK of a passive-open handshake is
    let mut cur_win: u64 = if su.victim_listens { (init_win as u64) << pshift } else { init_win as u64 };
    let mut max_sent_off: i64 = 1;
    let mut fin_off: Option<i64> = None;
    // (position of the victim's FIN as far as the peer has received it)
    let mut fin_any: Option<i64> = None;
    // our receive progress: highest contiguous offset received from the victim
    let mut got = Ranges(vec![]);
    let mss_bound: usize = match c.p_mss {
        Some(m) if m != 0 => (m as usize).max(48),
        _ => 536,
    };
    let steps = if thorough { 600 } else { 200 };
    let nsteps = c.tape.range(10, steps);
    let mut after_triple = false;
    for _ in 0..nsteps {
        // ---- victim application
        if !closed && written < total && c.tape.chance(3, 4) {
            let n = c.tape.size(1, (total - written).min(2 * su.tx as u64)) as usize;
            let buf: Vec<u8> = (0..n as u64).map(|j| stream_byte(key, written + j)).collect();
            let r = {
                let s = c.node.sockets.get_mut::<tcp::Socket>(c.h);
                guard("tcp::send_slice", || s.send_slice(&buf))?
            };
            if let Ok(k) = r {
                written += k as u64;
            }
        }
        if !closed && written == total && c.tape.chance(1, 3) {
            let s = c.node.sockets.get_mut::<tcp::Socket>(c.h);
            guard("tcp::close", || s.close())?;
            closed = true;
        }
        // ---- let it transmit, check every segment strictly (now and then the device has no free transmit slot:
        // whatever the socket wanted to send then has to survive until the next poll)
        let refuse = if after_triple { c.tape.draw(2) == 0 } else { c.tape.draw(8) == 0 };
        after_triple = false;
        let frames = if refuse { c.poll_tx_refused()? } else { c.poll()? };
        for p in &frames {
            let Some((ip, t)) = p.tcp() else { continue };
            if t.has(F_RST) || t.has(F_SYN) {
                continue;
            }
            let off = seq_diff(t.seq, iss);
            let len = t.payload.len() as i64;
            // one segment in eight never reaches the peer (a FIN more often: what covers a lost FIN is a path of
            // its own in the sender)
            let lost = (len > 0 || t.has(F_FIN)) && (c.tape.draw(8) == 0 || (t.has(F_FIN) && c.tape.draw(3) == 0));
            if lost {
                c.stats.inc("c05.victim-segments-lost");
            }
            if len > 0 {
                c.stats.inc("c05.data-segments");
                if off + len <= max_sent_off {
                    c.stats.inc("tcp.retransmission");
                }
                if !lost {
                    // (a keep-alive sent after the FIN carries one garbage octet at the FIN's sequence number: not data)
                    got.add((off - 1).max(0) as u64, ((off - 1 + len).max(0) as u64).min(written));
                }
            }
            if t.has(F_FIN) && !lost {
                fin_any = Some(off + len);
            }
            if c.props.has("C05") {
                let detail = |what: &str| format!("{}: victim emitted {} ; told ack_off={} win={} ; max_sent_off={} written={} closed={}", what, p.summary(), seq_diff(cur_ack, iss), cur_win, max_sent_off, written, closed);
                if len > 0 {
                    let keepalive = len == 1 && t.payload[0] == 0 && off + 1 == max_sent_off && !t.has(F_FIN) && c.node.sockets.get::<tcp::Socket>(c.h).keep_alive().is_some();
                    let d0 = off - 1;
                    let mut ok = d0 >= 0 && (d0 + len) as u64 <= written;
                    if ok {
                        for j in 0..len {
                            if t.payload[j as usize] != stream_byte(key, (d0 + j) as u64) {
                                ok = false;
                                break;
                            }
                        }
                    }
                    if !ok && !keepalive {
                        return Err(viol("C05", "payload", format!("C05.payload/{}", if off + len <= max_sent_off { "retransmit" } else { "new" }), detail("payload differs from the application's bytes")));
                    }
                    if len as usize > mss_bound {
                        return Err(viol("C05", "mss", "C05.mss/exceeds-peer-mss", detail(&format!("payload {} > MSS bound {}", len, mss_bound))));
                    }
                    if ip.hdr_len + ip.payload.len() > su.mtu {
                        return Err(viol("C05", "mss", "C05.mss/exceeds-local-mtu", detail("IP datagram larger than the MTU")));
                    }
                    if !keepalive {
                        let edge = seq_diff(cur_ack, iss) + cur_win as i64;
                        let probe = cur_win == 0 && len == 1;
                        if off + len > edge && !probe {
                            let kind = if off + len <= max_sent_off { "retransmit" } else { "new" };
                            return Err(viol("C05", "window", format!("C05.window-strict/{}{}", kind, if t.has(F_FIN) { "+fin" } else { "" }), detail(&format!("segment [{}..{}) beyond the window edge {} told by the latest ACK", off, off + len, edge))));
                        }
                        if off > max_sent_off {
                            return Err(viol("C05", "contiguity", "C05.contiguity/gap", detail("new data leaves a gap")));
                        }
                    }
                }
                if t.has(F_FIN) {
                    let f = off + len;
                    if !closed || f != 1 + written as i64 {
                        return Err(viol("C05", "fin", "C05.fin/wrong-position", detail("FIN not right after the last written byte")));
                    }
                    fin_off = Some(f);
                }
                if let Some(f) = fin_off {
                    if off + t.seg_len() as i64 > f + 1 {
                        return Err(viol("C05", "fin", "C05.fin/data-after-fin", detail("sequence space used after FIN")));
                    }
                }
            }
            let end = off + t.seg_len() as i64;
            if end > max_sent_off {
                max_sent_off = end;
            }
        }
        // ---- the adversarial receiver answers (or not); sometimes several of its segments arrive back to back,
        // before the victim gets to transmit again
        let burst = if c.tape.draw(6) == 0 { 2 + c.tape.draw(4) } else { 1 };
        if burst > 1 {
            c.stats.inc("c05.ack-bursts");
        }
        for _ in 0..burst {
            let act = c.tape.draw(10);
            let have = 1 + got.prefix() as i64; // next expected offset from the victim
            let fin_seen = fin_any.map(|f| have == f).unwrap_or(false);
            let new_ack_off = match act {
                0 | 1 => seq_diff(cur_ack, iss),                               // duplicate ACK
                2 => seq_diff(cur_ack, iss) + c.tape.draw(((have - seq_diff(cur_ack, iss)).max(0) + 1) as u64) as i64, // partial
                3 => -1,                                                       // withhold
                _ => have + fin_seen as i64,
            };
            if new_ack_off >= 0 {
                // (a duplicate ACK proper repeats the window too - three of them make the victim retransmit early)
                let proper_dup = act <= 1 && c.tape.draw(4) != 0;
                let win_raw: u16 = match if proper_dup { 2 } else { c.tape.draw(8) } {
                    0 => 0,
                    1 => 1,
                    2 => (cur_win >> pshift).min(65535) as u16,
                    3 => ((cur_win >> pshift) / 2).min(65535) as u16,
                    4 => 65535,
                    5 => c.tape.range(0, 100) as u16,
                    _ => c.tape.range(0, 8192) as u16,
                };
                let new_ack = iss.wrapping_add(new_ack_off as u32);
                let new_win = (win_raw as u64) << pshift;
                if new_ack == cur_ack && new_win == cur_win {
                    c.stats.inc("c05.dup-acks");
                }
                if seq_diff(new_ack, iss) + (new_win as i64) < seq_diff(cur_ack, iss) + cur_win as i64 {
                    c.stats.inc("c05.win-shrunk");
                }
                if new_win == 0 {
                    c.stats.inc("c05.win-zero");
                }
                // the peer may close its own direction at some point (FIN on one of its ACKs): the victim goes on sending
                // in CLOSE-WAIT and, once its application closes, in LAST-ACK - the same window rules apply there
                let mut flags = F_ACK;
                let p_seq = c.irs.wrapping_add(1).wrapping_add(p_fin_sent as u32);
                if !p_fin_sent && c.tape.draw(25) == 0 {
                    flags |= F_FIN;
                    p_fin_sent = true;
                    c.stats.inc("c05.peer-fin-sent");
                }
                let mut t = Tcp { seq: p_seq, ack: new_ack, flags, win: win_raw, ..Tcp::default() };
                // sometimes the ACK carries one to four SACK blocks (out-of-order data the receiver holds, or duplicates
                // it saw): whatever the sender makes of them, the ACK number and window of that segment count
                if c.tape.draw(6) == 0 {
                    let nb = 1 + c.tape.draw(4) as usize;
                    let top = max_sent_off.max(2 * nb as i64 + 2) as u64;
                    let mut cuts: Vec<u64> = (0..2 * nb).map(|_| 1 + c.tape.draw(top)).collect();
                    cuts.sort();
                    cuts.dedup();
                    for pair in cuts.chunks(2) {
                        if pair.len() == 2 {
                            t.opts.sack.push((iss.wrapping_add(pair[0] as u32), iss.wrapping_add(pair[1] as u32)));
                        }
                    }
                    c.stats.inc(match t.opts.sack.len() {
                        0 => "c05.ack-with-sack-blocks.0",
                        1 => "c05.ack-with-sack-blocks.1",
                        2 => "c05.ack-with-sack-blocks.2",
                        3 => "c05.ack-with-sack-blocks.3",
                        _ => "c05.ack-with-sack-blocks.4",
                    });
                }
                c.log(|| format!("P tx ACK off={} win={} sack={:?}", new_ack_off, new_win, t.opts.sack));
                let f = c.seg(&t);
                cur_ack = new_ack;
                cur_win = new_win;
                // frames emitted directly in reply are judged against the new values in the next round
                let _ = c.inject(f.clone())?;
                // a duplicate ACK proper often comes in threes (what reordering or a lost segment followed by three
                // more produces), and the device is often still busy right afterwards
                if proper_dup && c.tape.draw(2) == 0 {
                    let _ = c.inject(f.clone())?;
                    let _ = c.inject(f)?;
                    after_triple = true;
                    c.stats.inc("c05.triple-duplicate-acks");
                }
                // (replies to a pure ACK are themselves pure ACKs or nothing)
            }
        }
        // ---- time
        let d = match c.tape.draw(6) {
            0 => 0,
            1 => 1_000,
            2 => 30_000,
            3 => 300_000,
            4 => 1_100_000,
            _ => *c.tape.pick(&[3_000_000i64, 10_000_000, 61_000_000]),
        };
        c.now += d;
    }
    if c.props.has("C02") {
        honest_epilogue(c, su, key, total, written, closed, got, fin_any, p_fin_sent, pshift)?;
    }
    Ok(())
}

/// C02 with a scripted peer: after the adversarial phase (withheld, partial and duplicate ACKs, closed and shrunk
/// windows, bogus SACK blocks, lost segments) the peer turns into a plain correct receiver with an open window on a
/// loss-free network, and the victim is polled exactly per poll_at. Every octet accepted by send must then arrive,
/// the close handshake must complete, and while anything is outstanding poll_at must name an instant.
#[allow(clippy::too_many_arguments)]
fn honest_epilogue(c: &mut Ctx, su: &Setup, key: u64, total: u64, mut written: u64, mut closed: bool, mut got: Ranges, mut fin_any: Option<i64>, mut p_fin_sent: bool, pshift: u32) -> Result<(), Violation> {
    let iss = c.iss_v.unwrap();
    let irs = c.irs;
    c.stats.inc("c02.honest-epilogues");
    if closed && fin_any.is_none() {
        c.stats.inc("c02.honest-epilogues.begun-with-the-fin-lost");
    }
    let t0 = c.now;
    let mut last_progress = c.now;
    let mut mark = (0u64, false, tcp::State::Closed, 0u64);
    let mut pending: Vec<Packet> = vec![];
    for round in 0..30_000u32 {
        // ---- the application writes what is left and closes
        if !closed && written < total {
            let n = (total - written).min(2 * su.tx as u64) as usize;
            let buf: Vec<u8> = (0..n as u64).map(|j| stream_byte(key, written + j)).collect();
            let r = {
                let s = c.node.sockets.get_mut::<tcp::Socket>(c.h);
                guard("tcp::send_slice", || s.send_slice(&buf))?
            };
            if let Ok(k) = r {
                written += k as u64;
            }
        }
        if !closed && written == total {
            let s = c.node.sockets.get_mut::<tcp::Socket>(c.h);
            guard("tcp::close", || s.close())?;
            closed = true;
        }
        let mut frames = c.poll()?;
        frames.append(&mut pending);
        // ---- the peer takes everything in and acknowledges like a correct receiver
        let mut reply = false;
        for p in &frames {
            let Some((_, t)) = p.tcp() else { continue };
            if t.has(F_RST) || t.has(F_SYN) {
                continue;
            }
            let off = seq_diff(t.seq, iss);
            let len = t.payload.len() as i64;
            let expected = 1 + got.prefix() as i64;
            if len > 0 {
                got.add((off - 1).max(0) as u64, ((off - 1 + len).max(0) as u64).min(written));
            }
            if t.has(F_FIN) {
                fin_any = Some(off + len);
            }
            // (an empty segment at or beyond the next expected octet is acceptable and needs no answer, RFC 9293 3.10.7.4;
            // one before it - a keep-alive - is answered)
            if len > 0 || t.has(F_FIN) || off < expected {
                reply = true;
            }
        }
        let have = 1 + got.prefix() as i64;
        let fin_seen = fin_any.map(|f| have == f).unwrap_or(false);
        if fin_seen && !p_fin_sent {
            p_fin_sent = true;
            reply = true;
        }
        // (our FIN is repeated until the victim has acknowledged it)
        let fin_acked = p_fin_sent && c.v_ack == irs.wrapping_add(2);
        if p_fin_sent && !fin_acked && round % 8 == 7 {
            reply = true;
        }
        if reply {
            let t = Tcp { seq: if fin_acked { irs.wrapping_add(2) } else { irs.wrapping_add(1) }, ack: iss.wrapping_add((have + fin_seen as i64) as u32), flags: if p_fin_sent && !fin_acked { F_ACK | F_FIN } else { F_ACK }, win: (65535u32 >> pshift.min(4)) as u16, ..Tcp::default() };
            let f = c.seg(&t);
            pending = c.inject(f)?;
        }
        let st = c.sock().state();
        if matches!(st, tcp::State::Closed | tcp::State::TimeWait) {
            break;
        }
        let sq = c.sock().send_queue() as u64;
        let now_mark = (got.prefix(), fin_seen, st, sq);
        if now_mark != mark {
            mark = now_mark;
            last_progress = c.now;
        }
        let outstanding = got.prefix() < written || (closed && !fin_seen);
        if c.now - last_progress > 400_000_000 && outstanding {
            return Err(viol("C02", "progress", format!("C02.progress/scripted-peer/state={},txq{}", st_name(st), if sq > 0 { ">0" } else { "=0" }), format!("a correct receiver with an open window on a loss-free network, victim polled per poll_at: no progress for 400 simulated seconds ({} of {} octets written have arrived, FIN {} arrived; victim state {}, send queue {}; epilogue began at t={} us, now {} us)", got.prefix(), written, if fin_seen { "has" } else { "has not" }, st_name(st), sq, t0, c.now)));
        }
        if !pending.is_empty() {
            continue;
        }
        match c.node.poll_at(c.now)? {
            Some(t) if t > c.now => c.now = t.min(c.now + 120_000_000),
            Some(_) => c.now += 1_000,
            None => {
                if outstanding {
                    return Err(viol("C02", "deadline", format!("C02.deadline/scripted-peer/state={},txq{}", st_name(st), if sq > 0 { ">0" } else { "=0" }), format!("{} of {} octets accepted by send have reached the peer (FIN {} arrived) and the peer has acknowledged all it got, yet Interface::poll_at returned None (victim state {}, send queue {})", got.prefix(), written, if fin_seen { "has" } else { "has not" }, st_name(st), sq)));
                }
                c.now += 1_000_000;
            }
        }
        if round == 29_999 {
            c.stats.inc("c02.honest-epilogue-capped");
        }
    }
    c.stats.inc("c02.honest-epilogues-completed");
    Ok(())
}

// =============================================================================================
// C17: transition acceptor. One stimulus at a time; state() before and after.

#[derive(Clone, Debug)]
enum Stim {
    Api(&'static str),
    Seg { syn: bool, fin: bool, rst: bool, ack: Option<u32>, seq: u32, len: u32 },
    /// a segment that is not addressed to this socket: broadcast / multicast IP destination, another destination
    /// port, or (for a socket that has a remote endpoint) another remote port or address
    Foreign(&'static str),
    Egress,
}

struct Conn {
    /// victim's reference values for the current incarnation
    v_written: u64,
    app_read: u64,
    fin_accepted: bool,
    was_listener: bool,
    t_timewait: i64,
    t_last_seg: i64,
    irs: u32,
    key: u64,
    /// close() was called in SYN-RECEIVED (the SYN is still unacknowledged in FIN-WAIT-1)
    closed_in_synrcvd: bool,
}

pub fn run_states(tape: &mut Tape, props: Props, thorough: bool, trace_on: bool) -> Outcome {
    let (mut c, su) = setup(tape, props, trace_on, Mode::States);
    let desc = su.desc.clone();
    let mut r = states_body(&mut c, &su, thorough);
    // epilogue (C10): the application replaces the interface's address and aborts whatever the socket was doing
    // before the next poll - nothing may leave from the address the interface no longer has
    if r.is_ok() && c.props.has("C10") && c.tape.draw(3) == 0 {
        r = (|| -> Result<(), Violation> {
            let old = c.v_addr;
            let new = match old {
                IpAddr::V4(mut a) => {
                    a[3] = a[3].wrapping_add(40);
                    IpAddr::V4(a)
                }
                IpAddr::V6(mut a) => {
                    a[15] = a[15].wrapping_add(40);
                    IpAddr::V6(a)
                }
            };
            let (o, n) = (to_smol(&old), to_smol(&new));
            let iface = &mut c.node.iface;
            guard("Interface::update_ip_addrs", || {
                iface.update_ip_addrs(|a| {
                    for x in a.iter_mut() {
                        if x.address() == o {
                            *x = smoltcp::wire::IpCidr::new(n, x.prefix_len());
                        }
                    }
                })
            })?;
            for x in c.view.addrs.iter_mut() {
                if x.0 == old {
                    x.0 = new;
                }
            }
            let s = c.sock();
            guard("tcp::abort", || s.abort())?;
            c.stats.inc("c10.address-replaced-then-abort");
            c.poll()?;
            c.now += 1_000_000;
            c.poll()?;
            Ok(())
        })();
    }
    let nontrivial = c.stats.get("c17.transitions") >= 2 && c.stats.get("c17.stimuli") >= 10;
    let v = r.err();
    outcome(c, v, nontrivial, desc)
}

fn st_name(s: tcp::State) -> &'static str {
    match s {
        tcp::State::Closed => "CLOSED",
        tcp::State::Listen => "LISTEN",
        tcp::State::SynSent => "SYN-SENT",
        tcp::State::SynReceived => "SYN-RECEIVED",
        tcp::State::Established => "ESTABLISHED",
        tcp::State::FinWait1 => "FIN-WAIT-1",
        tcp::State::FinWait2 => "FIN-WAIT-2",
        tcp::State::CloseWait => "CLOSE-WAIT",
        tcp::State::Closing => "CLOSING",
        tcp::State::LastAck => "LAST-ACK",
        tcp::State::TimeWait => "TIME-WAIT",
    }
}

fn states_body(c: &mut Ctx, su: &Setup, thorough: bool) -> Result<(), Violation> {
    use tcp::State::*;
    // no timers that legitimately abort: the acceptor stays sharp
    {
        let s = c.sock();
        s.set_timeout(None);
        s.set_keep_alive(None);
    }
    c.ka_enabled = false;
    let mut conn = Conn { v_written: 0, app_read: 0, fin_accepted: false, was_listener: false, t_timewait: 0, t_last_seg: 0, irs: c.irs, key: c.tape.draw(u64::MAX) | 1, closed_in_synrcvd: false };
    let vkey = c.tape.draw(u64::MAX) | 2;
    let nsteps = c.tape.range(10, if thorough { 400 } else { 150 });
    // optionally start from an established connection so deep states are reached often
    if c.tape.chance(2, 3) {
        conn.was_listener = su.victim_listens;
        let _ = handshake(c, su, 8192)?;
    }
    for _ in 0..nsteps {
        let before = c.sock().state();
        let iss = c.iss_v;
        // reference RCV.NXT from the victim's public API (bytes it accepted in sequence)
        let rq = c.sock().recv_queue() as u64;
        let rcv_nxt = conn.irs.wrapping_add(1).wrapping_add((conn.app_read + rq) as u32).wrapping_add(conn.fin_accepted as u32);
        let edge = c.v_edge_last.unwrap_or(match c.v_syn_win {
            Some(w) if !matches!(before, Listen | SynSent | Closed) => conn.irs.wrapping_add(1).wrapping_add(w as u32),
            _ => rcv_nxt,
        });
        let win = seq_diff(edge, rcv_nxt).max(0) as u32;
        let fin_seq = iss.map(|i| i.wrapping_add(1).wrapping_add(conn.v_written as u32));
        let kind = c.tape.draw(10);
        let stim: Stim;
        match kind {
            0 | 1 => {
                // ---- API call
                let which = c.tape.draw(7);
                let name = match which {
                    0 => "recv",
                    1 => "send",
                    2 => "close",
                    3 => "listen",
                    4 => "connect",
                    5 => "abort",
                    _ => "recv",
                };
                stim = Stim::Api(name);
                let (p_addr, p_port, v_port) = (to_smol(&c.p_addr), c.p_port, c.v_port);
                match name {
                    "recv" => {
                        let mut buf = vec![0u8; c.tape.size(1, 4096) as usize];
                        let s = c.node.sockets.get_mut::<tcp::Socket>(c.h);
                        if let Ok(k) = guard("tcp::recv_slice", || s.recv_slice(&mut buf))? {
                            conn.app_read += k as u64;
                        }
                    }
                    "send" => {
                        let n = c.tape.size(1, 300) as usize;
                        let buf: Vec<u8> = (0..n as u64).map(|j| stream_byte(vkey, conn.v_written + j) | 1).collect();
                        let s = c.node.sockets.get_mut::<tcp::Socket>(c.h);
                        if let Ok(k) = guard("tcp::send_slice", || s.send_slice(&buf))? {
                            conn.v_written += k as u64;
                        }
                    }
                    "close" => {
                        // close() in SYN-RECEIVED is a recorded finding; keep it rare so that it
                        // does not end too many runs early
                        if before == SynReceived && !c.tape.chance(1, 8) {
                            continue;
                        }
                        let s = c.node.sockets.get_mut::<tcp::Socket>(c.h);
                        guard("tcp::close", || s.close())?;
                        if before == SynReceived {
                            conn.closed_in_synrcvd = true;
                        }
                    }
                    "abort" => {
                        let s = c.node.sockets.get_mut::<tcp::Socket>(c.h);
                        guard("tcp::abort", || s.abort())?;
                    }
                    "listen" => {
                        // (now and then with port 0, which is no endpoint: must be refused without a trace)
                        let bad_port = c.tape.draw(8) == 0;
                        let s = c.node.sockets.get_mut::<tcp::Socket>(c.h);
                        let r = guard("tcp::listen", || s.listen(if bad_port { 0 } else { v_port }))?;
                        if bad_port {
                            c.stats.inc("c17.api-invalid-endpoint");
                            if r.is_ok() || c.sock().state() != before {
                                return Err(viol("C17", "transition-acceptor", "C17.api/invalid-endpoint-accepted", format!("listen(0) returned {:?} in state {} and left the socket in {}", r, st_name(before), st_name(c.sock().state()))));
                            }
                            continue;
                        }
                        if r.is_ok() && before != Listen {
                            conn = Conn { v_written: 0, app_read: 0, fin_accepted: false, was_listener: true, t_timewait: 0, t_last_seg: 0, irs: c.tape.draw(u32::MAX as u64) as u32, key: conn.key, closed_in_synrcvd: false };
                            c.iss_v = None;
                            c.v_edge = None;
                            c.v_edge_last = None;
                        }
                    }
                    _ => {
                        let n = &mut c.node;
                        let cx = n.iface.context();
                        let s = n.sockets.get_mut::<tcp::Socket>(c.h);
                        // (now and then with an unusable endpoint: remote port 0, local port 0, unspecified remote address)
                        let bad = c.tape.draw(8);
                        let r = match bad {
                            0 => guard("tcp::connect", || s.connect(cx, (p_addr, 0), v_port))?,
                            1 => guard("tcp::connect", || s.connect(cx, (p_addr, p_port), 0))?,
                            2 => {
                                let unspec = if su.v6 { smoltcp::wire::IpAddress::v6(0, 0, 0, 0, 0, 0, 0, 0) } else { smoltcp::wire::IpAddress::v4(0, 0, 0, 0) };
                                guard("tcp::connect", || s.connect(cx, (unspec, p_port), v_port))?
                            }
                            _ => guard("tcp::connect", || s.connect(cx, (p_addr, p_port), v_port))?,
                        };
                        if bad <= 2 {
                            c.stats.inc("c17.api-invalid-endpoint");
                            if r.is_ok() || c.sock().state() != before {
                                return Err(viol("C17", "transition-acceptor", "C17.api/invalid-endpoint-accepted", format!("connect with an unusable endpoint (case {}) returned {:?} in state {} and left the socket in {}", bad, r, st_name(before), st_name(c.sock().state()))));
                            }
                            continue;
                        }
                        if r.is_ok() {
                            conn = Conn { v_written: 0, app_read: 0, fin_accepted: false, was_listener: false, t_timewait: 0, t_last_seg: 0, irs: c.tape.draw(u32::MAX as u64) as u32, key: conn.key, closed_in_synrcvd: false };
                            c.iss_v = None;
                            c.v_edge = None;
                            c.v_edge_last = None;
                        }
                    }
                }
            }
            2 | 3 => {
                // ---- time passes, then one egress pass
                let d = *c.tape.pick(&[0i64, 1_000, 200_000, 1_500_000, 9_999_000, 10_000_000, 10_001_000, 30_000_000, 70_000_000]);
                c.now += d;
                stim = Stim::Egress;
                let fr = c.egress()?;
                let _ = fr;
            }
            _ => {
                // ---- one segment
                let base = if matches!(before, Listen | SynSent | Closed) { conn.irs } else { rcv_nxt };
                let seq = match c.tape.draw(10) {
                    0 | 1 | 2 => base,
                    3 => base.wrapping_sub(1),
                    4 => base.wrapping_add(1),
                    5 => base.wrapping_add(win / 2),
                    6 => edge.wrapping_sub(1),
                    7 => edge,
                    8 => base.wrapping_sub(c.tape.range(2, 100_000) as u32),
                    _ => base.wrapping_add(c.tape.range(2, 100_000) as u32),
                };
                let snd_max = c.v_snd_max;
                let ack = match c.tape.draw(10) {
                    0 | 1 | 2 | 3 => Some(snd_max),
                    4 => iss.map(|i| i.wrapping_add(1)),
                    5 => Some(snd_max.wrapping_sub(1)),
                    6 => Some(snd_max.wrapping_add(1)),
                    7 => fin_seq.map(|f| f.wrapping_add(1)),
                    8 => None,
                    _ => Some(c.tape.draw(u32::MAX as u64) as u32),
                };
                let fl = c.tape.draw(12);
                let (syn, fin, rst) = match fl {
                    0 | 1 | 2 | 3 => (false, false, false),
                    4 | 5 => (true, false, false),
                    6 | 7 | 8 => (false, true, false),
                    9 | 10 => (false, false, true),
                    _ => (false, false, false),
                };
                let len = match c.tape.draw(5) {
                    0 | 1 => 0u32,
                    2 => 1,
                    3 => c.tape.range(1, 100) as u32,
                    _ => (win + c.tape.range(0, 10) as u32).min(3000),
                };
                let len = if syn { 0 } else { len };
                let data_seq0 = conn.irs.wrapping_add(1);
                let payload: Vec<u8> = (0..len).map(|j| stream_byte(conn.key, seq_diff(seq.wrapping_add(j), data_seq0) as u64)).collect();
                let mut flags = 0u8;
                if syn {
                    flags |= F_SYN;
                }
                if fin {
                    flags |= F_FIN;
                }
                if rst {
                    flags |= F_RST;
                }
                if ack.is_some() {
                    flags |= F_ACK;
                }
                let t = Tcp { seq, ack: ack.unwrap_or(0), flags, win: *c.tape.pick(&[8192u16, 0, 100, 65535]), payload, opts: if syn { TcpOpts { mss: c.p_mss, wscale: c.p_ws, ..TcpOpts::default() } } else { TcpOpts::default() }, ..Tcp::default() };
                let has_remote = !matches!(before, Listen | Closed);
                let foreign: Option<&'static str> = if c.tape.draw(8) == 0 {
                    match c.tape.draw(5) {
                        0 => Some("directed-broadcast-or-all-nodes-destination"),
                        1 => Some("limited-broadcast-or-all-nodes-destination"),
                        2 => Some("another-destination-port"),
                        3 if has_remote => Some("another-remote-port"),
                        4 if has_remote => Some("another-remote-address"),
                        _ => None,
                    }
                } else {
                    None
                };
                let f = match foreign {
                    None => {
                        stim = Stim::Seg { syn, fin, rst, ack, seq, len };
                        c.seg(&t)
                    }
                    Some(what) => {
                        stim = Stim::Foreign(what);
                        c.stats.inc("c17.foreign-segments");
                        let mut t = t.clone();
                        t.sport = c.p_port;
                        t.dport = c.v_port;
                        let (mut src, mut dst) = (c.p_addr, c.v_addr);
                        match what {
                            "directed-broadcast-or-all-nodes-destination" => dst = if su.v6 { IpAddr::V6([0xff, 2, 0, 0, 0, 0, 0, 0, 0, 0, 0, 0, 0, 0, 0, 1]) } else { IpAddr::V4([10, 0, 0, 255]) },
                            "limited-broadcast-or-all-nodes-destination" => dst = if su.v6 { IpAddr::V6([0xff, 2, 0, 0, 0, 0, 0, 0, 0, 0, 0, 0, 0, 0, 0, 1]) } else { IpAddr::V4([255, 255, 255, 255]) },
                            "another-destination-port" => t.dport = c.v_port.wrapping_add(1),
                            "another-remote-port" => t.sport = c.p_port.wrapping_add(1),
                            _ => {
                                src = match src {
                                    IpAddr::V4(mut a) => {
                                        a[3] = a[3].wrapping_add(7);
                                        IpAddr::V4(a)
                                    }
                                    IpAddr::V6(mut a) => {
                                        a[15] = a[15].wrapping_add(7);
                                        IpAddr::V6(a)
                                    }
                                }
                            }
                        }
                        let l4 = enc_tcp(&src, &dst, &t);
                        enc_ip(&src, &dst, P_TCP, 64, &l4)
                    }
                };
                let q0 = c.sock().recv_queue();
                let fr = c.inject(f)?;
                let _ = fr;
                let _ = q0;
                if before == TimeWait {
                    conn.t_last_seg = c.now;
                }
            }
        }
        c.stats.inc("c17.stimuli");
        let after = c.sock().state();
        c.log(|| format!("{:?}: {} -> {}", stim, st_name(before), st_name(after)));
        if after != before {
            c.stats.inc("c17.transitions");
            c.stats.cover(((before as u64) << 8) | after as u64);
            if after == TimeWait {
                conn.t_timewait = c.now;
                conn.t_last_seg = c.now;
            }
        }
        if !c.props.has("C17") {
            continue;
        }
        // ---------------- the acceptor
        let bad = |why: &str| -> Result<(), Violation> {
            let kind = match &stim {
                Stim::Api(n) => format!("api-{}", n),
                Stim::Egress => "egress".to_string(),
                Stim::Foreign(w) => format!("foreign-segment/{}", w),
                Stim::Seg { syn, fin, rst, ack, .. } => format!("seg{}{}{}{}", if *syn { "+syn" } else { "" }, if *fin { "+fin" } else { "" }, if *rst { "+rst" } else { "" }, if ack.is_some() { "+ack" } else { "" }),
            };
            Err(viol(
                "C17",
                "transition-acceptor",
                if conn.closed_in_synrcvd { "C17.edge/after-close-in-syn-received".to_string() } else { format!("C17.edge/{}->{}/{}/{}", st_name(before), st_name(after), kind, why) },
                format!("state changed {} -> {} on stimulus {:?}: {} ; reference: iss={:?} rcv_nxt={} edge={} fin_seq={:?} snd_max={}", st_name(before), st_name(after), stim, why, iss, rcv_nxt, edge, fin_seq, c.v_snd_max),
            ))
        };
        // TIME-WAIT must end by itself
        if before == TimeWait && matches!(stim, Stim::Egress) && c.now >= conn.t_last_seg + 10_000_000 && after == TimeWait {
            return Err(viol("C17", "time-wait", "C17.time-wait/not-expired", format!("TIME-WAIT still held at an egress pass {} us after the last segment", c.now - conn.t_last_seg)));
        }
        if after == before {
            continue;
        }
        match &stim {
            Stim::Api(name) => {
                let ok = match (*name, before, after) {
                    ("listen", Closed, Listen) => true,
                    ("connect", Closed, SynSent) => true,
                    ("close", Listen, Closed) | ("close", SynSent, Closed) => true,
                    ("close", SynReceived, FinWait1) | ("close", Established, FinWait1) => true,
                    ("close", CloseWait, LastAck) => true,
                    ("abort", _, Closed) => true,
                    // listen/connect on a socket that is not open first resets it
                    // documented: a socket in TIME-WAIT is not "open" and may be reused at once
                    ("listen", TimeWait, Listen) | ("connect", TimeWait, SynSent) => true,
                    _ => false,
                };
                if !ok {
                    return bad("api call off its documented edge");
                }
            }
            Stim::Foreign(_) => {
                return bad("a segment that is not addressed to this socket changed its state");
            }
            Stim::Egress => {
                let ok = match (before, after) {
                    (TimeWait, Closed) => {
                        if c.now < conn.t_timewait + 10_000_000 {
                            return bad("TIME-WAIT left earlier than 10 s");
                        }
                        true
                    }
                    _ => false,
                };
                if !ok {
                    return bad("an egress pass alone may only expire TIME-WAIT (no timeout configured)");
                }
            }
            Stim::Seg { syn, fin, rst, ack, seq, len } => {
                let (syn, fin, rst, ack, seq, len) = (*syn, *fin, *rst, *ack, *seq, *len);
                let acceptable = if len == 0 {
                    if win == 0 { seq == rcv_nxt } else { seq_le(rcv_nxt, seq) && seq_lt(seq, edge) }
                } else {
                    win > 0 && ((seq_le(rcv_nxt, seq) && seq_lt(seq, edge)) || (seq_lt(rcv_nxt, seq.wrapping_add(len)) && seq_le(seq.wrapping_add(len), edge)))
                };
                let acks_iss = iss.map(|i| ack == Some(i.wrapping_add(1))).unwrap_or(false);
                let acks_fin = fin_seq.map(|f| ack == Some(f.wrapping_add(1))).unwrap_or(false);
                let fin_in_order = fin && !syn && !rst && ack.is_some() && seq_le(seq, rcv_nxt) && seq_le(rcv_nxt, seq.wrapping_add(len)) && seq_le(seq.wrapping_add(len), if seq_lt(edge, rcv_nxt) { rcv_nxt } else { edge });
                let rst_ok = rst && acceptable;
                match (before, after) {
                    (Listen, SynReceived) => {
                        if !(syn && !rst && ack.is_none()) {
                            return bad("LISTEN left on something other than a bare SYN");
                        }
                        // new incarnation learned from the wire
                        conn.irs = seq;
                    }
                    (SynSent, Established) => {
                        if !(syn && !rst && acks_iss) {
                            return bad("ESTABLISHED entered from SYN-SENT without a SYN|ACK acknowledging exactly ISS+1");
                        }
                        conn.irs = seq;
                    }
                    (SynSent, SynReceived) => {
                        if !(syn && !rst && ack.is_none()) {
                            return bad("SYN-RECEIVED entered from SYN-SENT on something other than a bare SYN");
                        }
                        conn.irs = seq;
                    }
                    (SynSent, Closed) => {
                        if !(rst && acks_iss) {
                            return bad("SYN-SENT reset by something other than RST|ACK of exactly ISS+1");
                        }
                    }
                    (SynReceived, Established) => {
                        if !(acks_iss && !rst && !syn) {
                            return bad("ESTABLISHED entered from SYN-RECEIVED without an ACK of exactly ISS+1");
                        }
                    }
                    (SynReceived, CloseWait) => {
                        if !(acks_iss && fin_in_order) {
                            return bad("CLOSE-WAIT entered from SYN-RECEIVED without an in-order FIN acknowledging ISS+1");
                        }
                        conn.fin_accepted = true;
                    }
                    (SynReceived, Listen) => {
                        if !(rst_ok && conn.was_listener) {
                            return bad("SYN-RECEIVED returned to LISTEN without an in-window RST on a listener");
                        }
                    }
                    (Established, CloseWait) | (FinWait2, TimeWait) => {
                        if !fin_in_order {
                            return bad("peer-close transition without an in-order FIN");
                        }
                        conn.fin_accepted = true;
                    }
                    (FinWait1, FinWait2) => {
                        if !(acks_fin && !rst) {
                            return bad("FIN-WAIT-2 entered without an acknowledgment of the socket's own FIN");
                        }
                    }
                    (FinWait1, Closing) => {
                        if !fin_in_order {
                            return bad("CLOSING entered without an in-order FIN");
                        }
                        conn.fin_accepted = true;
                    }
                    (FinWait1, TimeWait) => {
                        if !(fin_in_order && acks_fin) {
                            return bad("TIME-WAIT entered from FIN-WAIT-1 without both an in-order FIN and the ACK of our FIN");
                        }
                        conn.fin_accepted = true;
                    }
                    (Closing, TimeWait) | (LastAck, Closed) => {
                        if !(acks_fin && !rst) && !(rst_ok && after == Closed) {
                            return bad("left without an acknowledgment of the socket's own FIN");
                        }
                    }
                    (_, Closed) => {
                        if !rst_ok {
                            return bad("connection reset by something other than an in-window RST");
                        }
                    }
                    _ => {
                        return bad("not an edge of the RFC 9293 state diagram");
                    }
                }
            }
        }
    }
    Ok(())
}
