//! C09 for raw sockets: two real nodes exchange whole IP packets through `raw::Socket`s.
//!
//! Sender side: every packet of the raw protocols that appears on the wire (IPv4 fragments are
//! reassembled by the harness) is the head of the sending socket's queue - same addresses, hop
//! limit, protocol and payload - packets with a foreign protocol number or too large for the link
//! and the fragmentation buffer never appear, and on a loss-free link every other accepted packet
//! appears exactly once.  Receiver side: whatever a raw socket hands to the application is a
//! packet of its protocol that was on the wire and completely delivered by the link, byte for
//! byte, at most as often as the link delivered it, and exactly once on a loss-free link; a user
//! buffer that is too small yields an error, never shortened data; peek agrees with recv.

use crate::codec::*;
use crate::core::*;
use crate::mk::*;
use crate::tap::{self, NodeView};
use crate::tape::{mix64, LogHash, Tape};
use smoltcp::iface::SocketHandle;
use smoltcp::socket::raw;
use smoltcp::wire::{IpProtocol, IpVersion};
use std::collections::VecDeque;

const PROTOS: [u8; 2] = [253, 254];

struct Sent {
    dst: IpAddr,
    proto: u8,
    hop: u8,
    payload: Vec<u8>,
    /// expected to reach the wire (protocol matches the socket, fits link or fragmentation buffer)
    expect_wire: bool,
    t: i64,
}

struct Wire {
    src: IpAddr,
    dst: IpAddr,
    proto: u8,
    payload: Vec<u8>,
    /// per frame (fragment): deliveries by the link
    frame_deliveries: Vec<u32>,
    /// deliveries to the application, per receiving socket (index in the receiver's socket list)
    app_deliveries: [u32; 3],
    t: i64,
}

struct Side {
    node: Node,
    view: NodeView,
    addr: IpAddr,
    socks: Vec<(SocketHandle, u8, VecDeque<Sent>)>,
    wire: Vec<Wire>,
    /// IPv4 reassembly of this side's own transmissions: ident -> (wire index, bytes so far by offset)
    frag: Option<(u16, usize, Vec<u8>, bool)>,
}

struct C<'a> {
    tape: &'a mut Tape,
    props: Props,
    s: [Side; 2],
    medium: Medium,
    v6: bool,
    ip_mtu: usize,
    now: i64,
    stats: Stats,
    hash: LogHash,
    trace: Vec<String>,
    trace_on: bool,
    events: u64,
    link: Vec<(i64, u64, usize, Vec<u8>, Option<(usize, usize)>)>,
    seq: u64,
    lossy: bool,
    faults_on: bool,
    /// the side's raw sockets have a small receive buffer (drops for lack of room are legitimate there)
    small_rx: [bool; 2],
}

impl<'a> C<'a> {
    fn log(&mut self, f: impl FnOnce() -> String) {
        if self.trace_on && self.trace.len() < 3000 {
            let s = f();
            self.trace.push(format!("t={:>12.6}s {}", self.now as f64 / 1e6, s));
        }
    }
}

fn v(sig: &str, oracle: &'static str, detail: String) -> Violation {
    viol("C09", oracle, sig.to_string(), detail)
}

pub fn run(tape: &mut Tape, props: Props, thorough: bool, trace_on: bool) -> Outcome {
    let medium = if tape.draw(2) == 0 { Medium::Ip } else { Medium::Ethernet };
    let v6 = tape.draw(2) == 1;
    let l2 = if medium == Medium::Ethernet { 14 } else { 0 };
    let ip_mtu = if v6 { *tape.pick(&[1500usize, 1280, 1400]) } else { *tape.pick(&[1500usize, 576, 296, 1006]) };
    // IPv4 header checksum capability of the two devices (0 Both, 1 Tx only, 2 Rx only, 3 None). A node that leaves
    // the transmit checksum to its device emits the field as zero; its peer must then not verify it
    let mut c4 = [0u8; 2];
    if !v6 && tape.draw(3) == 0 {
        c4 = [tape.draw(4) as u8, tape.draw(4) as u8];
        for i in 0..2 {
            if c4[i] >= 2 {
                c4[1 - i] = match c4[1 - i] {
                    0 => 1,
                    2 => 3,
                    x => x,
                };
            }
        }
    }
    let mut sides = vec![];
    let mut small_rx = [false; 2];
    for i in 0..2u8 {
        let mut cfg = NodeCfg::basic(if i == 0 { 'A' } else { 'B' }, medium, ip_mtu + l2, i + 1, v6);
        cfg.csum[0] = c4[i as usize];
        cfg.seed = 21 + tape.draw(1 << 16) + i as u64;
        let mut node = build_node(&cfg);
        let view = {
            let mut vw = cfg.view();
            vw.raw_tx = true;
            vw
        };
        let mut socks = vec![];
        // receive payload buffer: roomy, or smaller than some of the packets that will arrive - such a packet does
        // not fit even an empty buffer and is dropped whole (never handed over shortened)
        let rx_bytes = *tape.pick(&[8192usize, 8192, 8192, 96, 300, 1000]);
        small_rx[i as usize] = rx_bytes < 8192;
        for p in PROTOS {
            let s = raw::Socket::new(
                Some(if v6 { IpVersion::Ipv6 } else { IpVersion::Ipv4 }),
                Some(IpProtocol::from(p)),
                raw::PacketBuffer::new(vec![raw::PacketMetadata::EMPTY; 8], vec![0u8; rx_bytes]),
                raw::PacketBuffer::new(vec![raw::PacketMetadata::EMPTY; 4], vec![0u8; 4096]),
            );
            socks.push((node.sockets.add(s), p, VecDeque::new()));
        }
        // a third socket bound to the same protocol as the first: it never sends, and every packet the first one
        // receives is due to it as well
        {
            let s = raw::Socket::new(
                Some(if v6 { IpVersion::Ipv6 } else { IpVersion::Ipv4 }),
                Some(IpProtocol::from(PROTOS[0])),
                raw::PacketBuffer::new(vec![raw::PacketMetadata::EMPTY; 8], vec![0u8; rx_bytes]),
                raw::PacketBuffer::new(vec![raw::PacketMetadata::EMPTY; 1], vec![0u8; 64]),
            );
            socks.push((node.sockets.add(s), PROTOS[0], VecDeque::new()));
        }
        sides.push(Side { node, view, addr: cfg.addrs[0].0, socks, wire: vec![], frag: None });
    }
    let lossy = tape.draw(3) == 2;
    let desc = format!("raw-pair medium={:?} v6={} ip_mtu={} lossy={} ipv4-checksum-caps={:?} small-rx-buffers={:?}", medium, v6, ip_mtu, lossy, c4, small_rx);
    let b = sides.pop().unwrap();
    let a = sides.pop().unwrap();
    let mut c = C { tape, props, s: [a, b], medium, v6, ip_mtu, now: 0, stats: Stats::default(), hash: LogHash::new(), trace: vec![], trace_on, events: 0, link: vec![], seq: 0, lossy, faults_on: lossy, small_rx };
    let r = body(&mut c, thorough);
    let nontrivial = c.stats.get("raw.app-deliveries") >= 2 && c.stats.get("raw.sends-accepted") >= 3;
    c.stats.add("sim.seconds", (c.now / 1_000_000) as u64);
    Outcome { viol: r.err(), stats: c.stats, hash: c.hash, nontrivial, trace: c.trace, sim_us: c.now, events: c.events, cfg_desc: desc }
}

fn on_tx(c: &mut C, i: usize, raw: &[u8]) -> Result<Option<(usize, usize)>, Violation> {
    c.hash.bytes(raw);
    c.stats.inc("frames.tx");
    let pkt = tap::check_frame(c.props, &c.s[i].view, raw, &mut c.stats)?;
    let Some(p) = pkt else { return Ok(None) };
    let Some(ip) = &p.ip else { return Ok(None) };
    let on = c.props.has("C09");
    if !PROTOS.contains(&ip.proto) {
        // nothing but the raw sockets could originate these protocols here; a packet whose protocol differs
        // from its socket's must be dropped, not transmitted
        if on && [252u8, 17, 6].contains(&ip.proto) {
            return Err(v("C09.raw/tx-foreign-protocol-packet-transmitted", "tx", format!("node {} transmitted {} although the raw socket it was queued on is bound to another protocol", c.s[i].node.name, p.summary())));
        }
        return Ok(None);
    }
    let name = c.s[i].node.name;
    // ---- IPv4 fragments of one datagram are emitted in order, one datagram at a time
    let (whole, widx, frame_idx): (Option<Vec<u8>>, usize, usize) = match &ip.v4 {
        Some(v4) if v4.mf || v4.frag_off > 0 => {
            let (ident, off, mf) = (v4.ident, v4.frag_off, v4.mf);
            if off == 0 {
                if on && c.s[i].frag.is_some() {
                    return Err(v("C09.raw/tx-new-datagram-before-previous-complete", "tx", format!("node {} started fragmented datagram ident {} while another one was still incomplete on the wire", name, ident)));
                }
                let w = c.s[i].wire.len();
                c.s[i].wire.push(Wire { src: ip.src, dst: ip.dst, proto: ip.proto, payload: vec![], frame_deliveries: vec![0], app_deliveries: [0; 3], t: c.now });
                c.s[i].frag = Some((ident, w, ip.payload.clone(), false));
                (None, w, 0)
            } else {
                let Some((id0, w, buf, _)) = c.s[i].frag.as_mut() else {
                    return if on { Err(v("C09.raw/tx-fragment-without-first", "tx", format!("node {} emitted a non-first fragment (ident {}, offset {}) with no datagram in progress", name, ident, off))) } else { Ok(None) };
                };
                if on && (*id0 != ident || off != buf.len()) {
                    return Err(v("C09.raw/tx-fragment-discontinuity", "tx", format!("node {} emitted fragment ident {} offset {} but datagram ident {} has {} octets on the wire", name, ident, off, id0, buf.len())));
                }
                buf.extend_from_slice(&ip.payload);
                let w = *w;
                c.s[i].wire[w].frame_deliveries.push(0);
                let fi = c.s[i].wire[w].frame_deliveries.len() - 1;
                if !mf {
                    let (_, w, buf, _) = c.s[i].frag.take().unwrap();
                    c.s[i].wire[w].payload = buf.clone();
                    (Some(buf), w, fi)
                } else {
                    (None, w, fi)
                }
            }
        }
        _ => {
            c.s[i].wire.push(Wire { src: ip.src, dst: ip.dst, proto: ip.proto, payload: ip.payload.clone(), frame_deliveries: vec![0], app_deliveries: [0; 3], t: c.now });
            (Some(ip.payload.clone()), c.s[i].wire.len() - 1, 0)
        }
    };
    if let Some(payload) = whole {
        c.stats.inc("raw.datagrams-on-wire");
        let k = c.s[i].socks.iter().position(|s| s.1 == ip.proto).unwrap();
        // entries that must never reach the wire are skipped
        while c.s[i].socks[k].2.front().map(|s| !s.expect_wire).unwrap_or(false) {
            c.s[i].socks[k].2.pop_front();
        }
        let head_ok = c.s[i].socks[k].2.front().map(|s| s.dst == ip.dst && s.proto == ip.proto && s.hop == ip.hop && s.payload == payload).unwrap_or(false);
        if head_ok {
            c.s[i].socks[k].2.pop_front();
        } else if on {
            let later = c.s[i].socks[k].2.iter().position(|s| s.dst == ip.dst && s.payload == payload);
            let head = c.s[i].socks[k].2.front().map(|s| format!("to {} proto {} hop {} len {}", s.dst, s.proto, s.hop, s.payload.len()));
            return Err(v(
                if later.is_some() { "C09.raw/tx-out-of-order-or-lost-predecessor" } else { "C09.raw/tx-modified-duplicate-or-unknown" },
                "tx",
                format!("node {} transmitted a raw packet to {} proto {} hop {} with {} payload octets that is not the head of the socket's queue (head: {:?}; same packet queued at position {:?})", name, ip.dst, ip.proto, ip.hop, payload.len(), head, later),
            ));
        }
        if on && ip.src != c.s[i].addr {
            return Err(v("C09.raw/tx-source-rewritten", "tx", format!("node {} transmitted a raw packet with source {} (the application wrote {})", name, ip.src, c.s[i].addr)));
        }
    }
    Ok(Some((widx, frame_idx)))
}

fn poll_side(c: &mut C, i: usize) -> Result<(), Violation> {
    c.events += 1;
    c.link.sort_by_key(|e| (e.0, e.1));
    let mut k = 0;
    let mut taken = 0;
    // at most 4 frames per poll, so that the receive buffers (8 packets / 8 KiB, drained after every poll)
    // can never be the reason for a missing delivery
    while k < c.link.len() && taken < 4 {
        if c.link[k].0 <= c.now && c.link[k].2 == i {
            taken += 1;
            let (_, _, _, f, id) = c.link.remove(k);
            if let Some((w, fi)) = id {
                if let Some(x) = c.s[1 - i].wire.get_mut(w).and_then(|w| w.frame_deliveries.get_mut(fi)) {
                    *x += 1;
                }
            }
            c.hash.bytes(&f);
            c.s[i].node.dev.rx.push_back(f);
            c.stats.inc("frames.delivered");
        } else {
            k += 1;
        }
    }
    c.s[i].node.dev.tx_budget = match c.tape.draw(4) {
        0 => Some(1),
        1 => Some(1 + c.tape.draw(3) as usize),
        _ => None,
    };
    let now = c.now;
    let info = c.s[i].node.poll(now)?;
    for raw in &info.tx {
        let id = on_tx(c, i, raw)?;
        let mut copies = 1;
        let mut delay = 1_000i64;
        if c.faults_on {
            match c.tape.draw(10) {
                0 => {
                    copies = 0;
                    c.stats.inc("fault.drop");
                }
                1 => {
                    copies = 2;
                    c.stats.inc("fault.dup");
                }
                2 => {
                    delay += 1_000 * c.tape.range(1, 8) as i64;
                    c.stats.inc("fault.reorder-delay");
                }
                _ => {}
            }
        }
        for n in 0..copies {
            c.seq += 1;
            c.link.push((c.now + delay + n as i64 * 1_500, c.seq, 1 - i, raw.clone(), id));
        }
    }
    drain(c, i)
}

fn drain(c: &mut C, i: usize) -> Result<(), Violation> {
    let on = c.props.has("C09");
    let name = c.s[i].node.name;
    for k in 0..c.s[i].socks.len() {
        let (h, proto, _) = (c.s[i].socks[k].0, c.s[i].socks[k].1, 0);
        loop {
            let mode = c.tape.draw(6);
            let so = c.s[i].node.sockets.get_mut::<raw::Socket>(h);
            let head: Option<Vec<u8>> = guard("raw::peek", || so.peek().ok().map(|b| b.to_vec()))?;
            let Some(head) = head else { break };
            let got: Option<Vec<u8>> = match mode {
                0 => {
                    // a user buffer one octet too small: error, and never shortened data
                    let mut small = vec![0u8; head.len().saturating_sub(1)];
                    let r = guard("raw::recv_slice", || so.recv_slice(&mut small))?;
                    match r {
                        // the packet is consumed together with the error (documented): it counts as handed over
                        Err(raw::RecvError::Truncated) => {
                            c.stats.inc("raw.truncated-reads");
                            Some(head.clone())
                        }
                        Ok(n) if head.is_empty() && n == 0 => Some(vec![]),
                        other => {
                            if on {
                                return Err(v("C09.raw/rx-short-buffer-not-an-error", "rx", format!("recv_slice into {} octets for a {}-octet packet returned {:?}", small.len(), head.len(), other.map(|_| ()))));
                            }
                            None
                        }
                    }
                }
                1 => {
                    let mut big = vec![0u8; head.len() + 7];
                    let r = guard("raw::recv_slice", || so.recv_slice(&mut big))?;
                    r.ok().map(|n| big[..n].to_vec())
                }
                2 => {
                    let mut small = vec![0u8; head.len() / 2];
                    let r = guard("raw::peek_slice", || so.peek_slice(&mut small))?;
                    if on && !head.is_empty() && small.len() < head.len() && !matches!(r, Err(raw::RecvError::Truncated)) {
                        return Err(v("C09.raw/rx-short-buffer-not-an-error", "rx", format!("peek_slice into {} octets for a {}-octet packet did not report truncation", small.len(), head.len())));
                    }
                    guard("raw::recv", || so.recv().ok().map(|b| b.to_vec()))?
                }
                _ => guard("raw::recv", || so.recv().ok().map(|b| b.to_vec()))?,
            };
            let Some(data) = got else { continue };
            c.stats.inc("raw.app-deliveries");
            c.hash.bytes(&data);
            if on && data != head {
                return Err(v("C09.raw/rx-peek-differs-from-recv", "rx", format!("node {}: peek showed a {}-octet packet, recv returned a different one ({} octets)", name, head.len(), data.len())));
            }
            // what the application got is an IP packet: decode it independently
            // (the header the application sees is re-emitted by the receiving stack: its checksum field is filled in
            // unless the sender's or the receiver's device is meant to take care of IPv4 header checksums)
            let dec = decode_ip(&data, &Verify { ipv4: c.s[1 - i].view.tx_verify.ipv4 && c.s[i].view.tx_verify.ipv4, ..Verify::none() }, true);
            let Ok(pk) = dec else {
                if on {
                    return Err(v("C09.raw/rx-not-a-valid-ip-packet", "rx", format!("node {} delivered {} octets to a raw socket that do not decode as a valid IP packet: {:?}", name, data.len(), dec.err().map(|e| e.msg))));
                }
                continue;
            };
            let ip = pk.ip.unwrap();
            let peer = &mut c.s[1 - i];
            let m = peer.wire.iter_mut().find(|w| w.proto == proto && ip.proto == proto && w.src == ip.src && w.dst == ip.dst && w.payload == ip.payload && w.app_deliveries[k] < *w.frame_deliveries.iter().min().unwrap_or(&0));
            match m {
                Some(w) => w.app_deliveries[k] += 1,
                None => {
                    if on {
                        return Err(v(
                            "C09.raw/rx-differs-from-what-was-sent",
                            "rx",
                            format!("node {} delivered to its raw socket for protocol {} a packet {} > {} proto {} with {} payload octets that is not a packet the peer transmitted and the link delivered completely (or it was delivered more often)", name, proto, ip.src, ip.dst, ip.proto, ip.payload.len()),
                        ));
                    }
                }
            }
        }
    }
    Ok(())
}

fn app_send(c: &mut C) -> Result<(), Violation> {
    let i = c.tape.draw(2) as usize;
    let k = c.tape.draw(2) as usize;
    let (h, sock_proto) = (c.s[i].socks[k].0, c.s[i].socks[k].1);
    let n = match c.tape.draw(8) {
        0 => 0,
        1 | 2 => c.tape.range(1, 64) as usize,
        3 | 4 => c.tape.range(64, 600) as usize,
        5 => c.ip_mtu.saturating_sub(60) + c.tape.draw(90) as usize,
        6 => c.tape.range(1400, 1520) as usize,
        _ => c.tape.range(600, 1700) as usize,
    };
    let key = c.tape.draw(1 << 30);
    let payload: Vec<u8> = (0..n).map(|j| (mix64(key, j as u64 / 8) >> ((j % 8) * 8)) as u8).collect();
    let proto = if c.tape.draw(10) == 0 { *c.tape.pick(&[252u8, 17, 6]) } else { sock_proto };
    let hop = *c.tape.pick(&[64u8, 64, 1, 255, 7]);
    let dst = c.s[1 - i].addr;
    let src = c.s[i].addr;
    let pkt = enc_ip(&src, &dst, proto, hop, &payload);
    let hdr = if c.v6 { 40 } else { 20 };
    let fits = pkt.len() <= c.ip_mtu || (!c.v6 && pkt.len() <= 1500);
    let so = c.s[i].node.sockets.get_mut::<raw::Socket>(h);
    let how = c.tape.draw(3);
    let slack = if how == 2 { 1 + c.tape.draw(40) as usize } else { 0 };
    let r: Result<(), raw::SendError> = guard("raw::send", || match how {
        0 => so.send_slice(&pkt),
        1 => so.send(pkt.len()).map(|b| b.copy_from_slice(&pkt)),
        _ => so
            .send_with(pkt.len() + slack, |b| {
                b[..pkt.len()].copy_from_slice(&pkt);
                pkt.len()
            })
            .map(|_| ()),
    })?;
    let _ = hdr;
    if r.is_ok() {
        c.stats.inc("raw.sends-accepted");
        let t = c.now;
        let name = c.s[i].node.name;
        c.log(|| format!("{} app: raw send proto {} (socket {}) len {} hop {} fits={}", name, proto, sock_proto, n, hop, fits));
        c.s[i].socks[k].2.push_back(Sent { dst, proto, hop, payload, expect_wire: proto == sock_proto && fits, t });
    }
    Ok(())
}

fn next_time(c: &mut C, cap: i64) -> Result<i64, Violation> {
    let mut next = c.now + cap;
    for e in &c.link {
        next = next.min(e.0);
    }
    for i in 0..2 {
        let now = c.now;
        if let Some(t) = c.s[i].node.poll_at(now)? {
            next = next.min(t);
        }
    }
    Ok(next.max(c.now))
}

fn body(c: &mut C, thorough: bool) -> Result<(), Violation> {
    let ops = c.tape.range(3, if thorough { 150 } else { 50 });
    for _ in 0..ops {
        let burst = if c.tape.draw(4) == 0 { c.tape.range(2, 4) } else { 1 };
        for _ in 0..burst {
            app_send(c)?;
        }
        for _ in 0..c.tape.range(1, 5) {
            let first = c.tape.draw(2) as usize;
            poll_side(c, first)?;
            poll_side(c, 1 - first)?;
            let cap = *c.tape.pick(&[1_000i64, 5_000, 100_000, 1_200_000]);
            c.now = next_time(c, cap)?;
        }
    }
    // ---- settle on a loss-free link
    c.faults_on = false;
    let mut idle = 0;
    for _ in 0..600 {
        poll_side(c, 0)?;
        poll_side(c, 1)?;
        let pending = !c.link.is_empty() || c.s.iter().any(|s| s.frag.is_some() || s.socks.iter().any(|k| k.2.iter().any(|x| x.expect_wire)));
        if !pending {
            idle += 1;
            if idle > 2 {
                break;
            }
        } else {
            idle = 0;
        }
        c.now = next_time(c, 1_500_000)?;
    }
    if !c.props.has("C09") {
        return Ok(());
    }
    for i in 0..2 {
        let name = c.s[i].node.name;
        for (_, proto, q) in &c.s[i].socks {
            if let Some(x) = q.iter().find(|x| x.expect_wire) {
                return Err(v("C09.raw/accepted-packet-never-transmitted", "tx", format!("node {}: a raw packet (proto {}, {} payload octets to {}) accepted by send at t={} us was never transmitted although the peer is reachable and the link now loss-free", name, proto, x.payload.len(), x.dst, x.t)));
            }
        }
        if !c.lossy && !c.small_rx[1 - i] {
            // every raw socket of the peer that is bound to the packet's protocol gets its own copy, once
            let peer_protos: Vec<u8> = c.s[1 - i].socks.iter().map(|s| s.1).collect();
            if let Some(w) = c.s[i].wire.iter().find(|w| peer_protos.iter().enumerate().any(|(k, p)| (*p == w.proto) != (w.app_deliveries[k] == 1) || w.app_deliveries[k] > 1)) {
                return Err(v("C09.raw/not-delivered-exactly-once", "rx", format!("loss-free link: the raw packet node {} transmitted at t={} us ({} > {} proto {} with {} payload octets, {} frame(s)) was delivered {:?} times to the peer's raw sockets (bound to protocols {:?})", name, w.t, w.src, w.dst, w.proto, w.payload.len(), w.frame_deliveries.len(), w.app_deliveries, peer_protos)));
            }
        }
    }
    Ok(())
}
