//! C12, receiving side, with a scripted sender: valid UDP datagrams are cut into IPv4 fragments
//! by the harness and delivered to one real node one frame at a time in a tape-chosen order -
//! permuted, with duplicates, with a fragment missing - and with pauses that cross the 60 s
//! reassembly timeout.  The single reassembly slot of the shipped configuration is mirrored
//! conservatively: a datagram *must* be delivered when the slot was certainly free at its first
//! fragment (nothing incomplete within the last 61 s), all its fragments arrived within 59 s and
//! never formed more than three disjoint ranges; whatever is delivered must be exactly one of the
//! datagrams sent, once per complete arrival at most.

use crate::codec::*;
use crate::core::*;
use crate::mk::*;
use crate::tape::{mix64, LogHash, Tape};
use smoltcp::socket::udp;

struct Dg {
    src: IpAddr,
    payload: Vec<u8>,
    delivered: u32,
    /// complete sets of fragments handed to the node
    complete_arrivals: u32,
    must: bool,
}

/// Builds with several reassembly slots (the wide variant): the fragments of two or three datagrams arrive
/// interleaved, each datagram's own fragments in order or reversed, complete and without duplicates - as many
/// datagrams at a time as there are slots at most.  Every one of them must be delivered exactly, once.
fn run_interleaved(tape: &mut Tape, props: Props, trace_on: bool, slots: usize) -> Outcome {
    let cfg = NodeCfg::basic('V', Medium::Ip, 1500, 1, false);
    let mut node = build_node(&cfg);
    let mut s = udp::Socket::new(udp::PacketBuffer::new(vec![udp::PacketMetadata::EMPTY; 16], vec![0u8; 32768]), udp::PacketBuffer::new(vec![udp::PacketMetadata::EMPTY; 1], vec![0u8; 64]));
    s.bind(7000).unwrap();
    let h = node.sockets.add(s);
    let v = IpAddr::V4([10, 0, 0, 1]);
    // under C09 the same runs judge what the socket is handed (never merged, never misattributed, never twice);
    // the must-deliver claims belong to C12 alone
    let on12 = props.has("C12");
    let on = on12 || props.has("C09");
    let pid: &'static str = if on12 { "C12" } else { "C09" };
    let mut stats = Stats::default();
    let mut hash = LogHash::new();
    let mut trace: Vec<String> = vec![];
    let mut now: i64 = 1_000_000;
    let mut events = 0u64;
    let mut result: Result<(), Violation> = Ok(());
    let rounds = tape.range(1, 5);
    let mut serial = 0u16;
    'outer: for _ in 0..rounds {
        let n = 2 + tape.draw((slots.min(3) - 1) as u64) as usize;
        let mut dgs: Vec<(Vec<u8>, Vec<Vec<u8>>, u16, IpAddr)> = vec![];
        // different senders may use the same identification at the same time (the reassembly key includes the
        // source address); one sender never does
        let mut shared_by: Vec<IpAddr> = vec![];
        for _ in 0..n {
            serial += 1;
            let src = IpAddr::V4([10, 0, 0, 2 + (tape.draw(2) as u8)]);
            let len = tape.range(60, 900) as usize;
            let key = tape.draw(1 << 30);
            let payload: Vec<u8> = (0..len).map(|j| (mix64(key, j as u64 / 8) >> ((j % 8) * 8)) as u8).collect();
            let sport = 4000 + serial;
            let mut l4 = enc_udp(&src, &v, sport, 7000, &payload);
            if tape.draw(3) == 0 {
                // no UDP checksum (legal over IPv4): nothing but the reassembly itself keeps datagrams apart
                l4[6] = 0;
                l4[7] = 0;
                stats.inc("reasm.udp-without-checksum");
            }
            let share = tape.draw(3) == 0 && !shared_by.contains(&src);
            let ident = if share {
                shared_by.push(src);
                stats.inc("reasm.identification-shared-between-senders");
                0x5fff
            } else {
                0x5000 + serial
            };
            let fsz = 8 * tape.range(2, 2 + (l4.len() as u64 / 24).min(40)) as usize;
            let mut frags = vec![];
            let mut off = 0;
            while off < l4.len() {
                let end = (off + fsz).min(l4.len());
                let o = V4Opts { ident, df: false, mf: end < l4.len(), frag_off: off, tos: 0 };
                frags.push(enc_ipv4(src.v4(), v.v4(), P_UDP, 64, &o, &l4[off..end]));
                off = end;
            }
            if tape.draw(3) == 0 {
                frags.reverse();
            }
            dgs.push((payload, frags, sport, src));
        }
        stats.add("reasm.datagrams-sent", n as u64);
        stats.inc("reasm.interleaved-rounds");
        // interleave, keeping each datagram's own order
        let mut cursors = vec![0usize; n];
        let mut delivered = vec![0u32; n];
        loop {
            let open: Vec<usize> = (0..n).filter(|&i| cursors[i] < dgs[i].1.len()).collect();
            if open.is_empty() {
                break;
            }
            let i = open[tape.draw(open.len() as u64) as usize];
            let f = dgs[i].1[cursors[i]].clone();
            cursors[i] += 1;
            now += tape.range(1, 200_000) as i64;
            events += 1;
            hash.u64(now as u64);
            hash.bytes(&f);
            node.dev.rx.push_back(f);
            stats.inc("frag.rx-fragments");
            if let Err(e) = node.poll_ingress_single(now) {
                result = Err(e);
                break 'outer;
            }
            if trace_on && trace.len() < 2000 {
                trace.push(format!("t={:>12.6}s fragment {} of datagram with source port {}", now as f64 / 1e6, cursors[i], dgs[i].2));
            }
            loop {
                let so = node.sockets.get_mut::<udp::Socket>(h);
                let got = match guard("udp::recv", || so.recv().ok().map(|(b, m)| (b.to_vec(), m))) {
                    Ok(g) => g,
                    Err(e) => {
                        result = Err(e);
                        break 'outer;
                    }
                };
                let Some((data, meta)) = got else { break };
                stats.inc("reasm.delivered");
                match (0..n).find(|&j| dgs[j].2 == meta.endpoint.port && dgs[j].0 == data) {
                    Some(j) => {
                        delivered[j] += 1;
                        if on && from_smol(&meta.endpoint.addr) != dgs[j].3 {
                            result = Err(viol(pid, "reassembly", format!("{}.rx/reassembled-datagram-attributed-to-another-sender", pid), format!("interleaved arrival: the datagram from {} port {} was delivered as coming from {}", dgs[j].3, dgs[j].2, meta.endpoint.addr)));
                            break 'outer;
                        }
                    }
                    None => {
                        if on {
                            result = Err(viol(pid, "reassembly", format!("{}.rx/reassembled-datagram-is-none-of-the-datagrams-sent", pid), format!("interleaved arrival: the socket received {} octets from port {} that equal none of the datagrams in flight", data.len(), meta.endpoint.port)));
                            break 'outer;
                        }
                    }
                }
            }
        }
        stats.add("reasm.must-deliver-claims", n as u64);
        if on {
            // (more than once is a violation of C09 and C12 alike; not at all only of C12)
            if let Some(j) = (0..n).find(|&j| if on12 { delivered[j] != 1 } else { delivered[j] > 1 }) {
                result = Err(viol(
                    pid,
                    "reassembly",
                    format!("{}.must-deliver/interleaved-datagrams", pid),
                    format!("{} datagrams arrived interleaved ({} reassembly slots), each complete, without duplicates and with its own fragments in order or reversed; the one from port {} ({} octets, {} fragments) was delivered {} times", n, slots, dgs[j].2, dgs[j].0.len(), dgs[j].1.len(), delivered[j]),
                ));
                break 'outer;
            }
        }
        now += *tape.pick(&[1_000i64, 500_000, 62_000_000]);
        if let Err(e) = node.poll(now) {
            result = Err(e);
            break;
        }
    }
    let nontrivial = stats.get("reasm.delivered") >= 1;
    stats.add("sim.seconds", (now / 1_000_000) as u64);
    Outcome { viol: result.err(), stats, hash, nontrivial, trace, sim_us: now, events, cfg_desc: format!("reassembly: interleaved scripted fragments -> one real node ({} reassembly slots)", slots) }
}

pub fn run(tape: &mut Tape, props: Props, thorough: bool, trace_on: bool) -> Outcome {
    let slots = cfg_value("REASSEMBLY_BUFFER_COUNT", 1);
    if slots >= 2 && tape.draw(2) == 1 {
        return run_interleaved(tape, props, trace_on, slots);
    }
    let cfg = NodeCfg::basic('V', Medium::Ip, 1500, 1, false);
    let mut node = build_node(&cfg);
    let mut s = udp::Socket::new(udp::PacketBuffer::new(vec![udp::PacketMetadata::EMPTY; 16], vec![0u8; 32768]), udp::PacketBuffer::new(vec![udp::PacketMetadata::EMPTY; 1], vec![0u8; 64]));
    s.bind(7000).unwrap();
    let h = node.sockets.add(s);
    let v = IpAddr::V4([10, 0, 0, 1]);
    // under C09 the same runs judge what the socket is handed (never merged, never misattributed, never twice);
    // the must-deliver claims belong to C12 alone
    let on12 = props.has("C12");
    let on = on12 || props.has("C09");
    let pid: &'static str = if on12 { "C12" } else { "C09" };
    let mut stats = Stats::default();
    let mut hash = LogHash::new();
    let mut trace: Vec<String> = vec![];
    let mut now: i64 = 1_000_000;
    let mut events = 0u64;
    let mut dgs: Vec<Dg> = vec![];
    // source port 4000 + k -> index into dgs
    let mut port_to_dg: Vec<Option<usize>> = vec![];
    // conservative mirror of the single reassembly slot: busy (possibly) until this instant
    let mut slot_busy_until: i64 = 0;
    let n_dg = tape.range(2, if thorough { 14 } else { 7 });
    // (source, instant of the last fragment sent under the shared identification)
    let mut shared_by: Vec<(IpAddr, i64)> = vec![];
    // half of the runs hand the fragments over through Interface::poll (which also does the interface's
    // housekeeping, in its own order) instead of poll_ingress_single, and then do not always poll during the pauses:
    // the first poll after a long silence is the one that brings the next fragment
    let via_poll = tape.draw(2) == 0;
    let mut result: Result<(), Violation> = Ok(());
    'outer: for k in 0..n_dg {
        let src = IpAddr::V4([10, 0, 0, 2 + (tape.draw(2) as u8)]);
        let len = match tape.draw(4) {
            0 => 8 * tape.range(3, 40) as usize,
            1 => tape.range(20, 1400) as usize,
            2 => 200,
            _ => tape.range(100, 700) as usize,
        };
        let key = tape.draw(1 << 30);
        let payload: Vec<u8> = (0..len).map(|j| (mix64(key, j as u64 / 8) >> ((j % 8) * 8)) as u8).collect();
        let mut l4 = enc_udp(&src, &v, 4000 + k as u16, 7000, &payload);
        if tape.draw(3) == 0 {
            // no UDP checksum (legal over IPv4): nothing but the reassembly itself keeps datagrams apart
            l4[6] = 0;
            l4[7] = 0;
            stats.inc("reasm.udp-without-checksum");
        }
        let fsz = 8 * tape.range(1, 1 + (l4.len() as u64 / 16).min(60)) as usize;
        // different senders may use the same identification (the reassembly key includes the source address);
        // one sender does not reuse it within a run
        // (a sender comes back to an identification only long after the reassembly timeout of its last use)
        let share = tape.draw(3) == 0 && !shared_by.iter().any(|(a, t)| *a == src && now - *t < 125_000_000);
        let ident = if share {
            shared_by.retain(|(a, _)| *a != src);
            shared_by.push((src, now));
            stats.inc("reasm.identification-shared-between-senders");
            0x4abc
        } else {
            0x4000 + k as u16 * 3 + tape.draw(2) as u16
        };
        let mut frags: Vec<(usize, usize, Vec<u8>)> = vec![];
        let mut off = 0;
        while off < l4.len() {
            let end = (off + fsz).min(l4.len());
            let o = V4Opts { ident, df: false, mf: end < l4.len(), frag_off: off, tos: 0 };
            frags.push((off, end, enc_ipv4(src.v4(), v.v4(), P_UDP, 64, &o, &l4[off..end])));
            off = end;
        }
        if frags.len() < 2 || frags.len() > 8 {
            continue;
        }
        // one datagram in five carries an IPv4 option that is copied into every fragment (stream identifier, copied
        // flag set): the header of each fragment is then 24 octets long
        if tape.draw(5) == 0 {
            for f in frags.iter_mut() {
                f.2 = with_v4_option(&f.2, &[0x88, 4, 0, 7]);
            }
            stats.inc("reasm.datagrams-with-an-ipv4-option-in-every-fragment");
        }
        stats.inc("reasm.datagrams-sent");
        // ---- delivery plan
        let mut order: Vec<usize> = (0..frags.len()).collect();
        match tape.draw(4) {
            0 => {}
            1 => order.reverse(),
            _ => {
                for i in (1..order.len()).rev() {
                    let j = tape.draw(i as u64 + 1) as usize;
                    order.swap(i, j);
                }
            }
        }
        let omit = if tape.draw(4) == 0 { Some(tape.draw(frags.len() as u64) as usize) } else { None };
        let mut plan: Vec<usize> = vec![];
        for &i in &order {
            if Some(i) == omit {
                stats.inc("fault.drop");
                continue;
            }
            plan.push(i);
            if tape.draw(6) == 0 {
                plan.push(i);
                stats.inc("fault.dup");
            }
        }
        if tape.draw(8) == 0 && !plan.is_empty() {
            // a late second copy of everything
            let again = plan.clone();
            plan.extend(again);
        }
        // ---- reference bookkeeping
        let first_at = now;
        let slot_free_at_start = now > slot_busy_until;
        let mut ranges: Vec<(usize, usize)> = vec![];
        let mut max_ranges = 0;
        let mut complete_at: Option<i64> = None;
        let mut completes = 0u32;
        let di = dgs.len();
        while port_to_dg.len() <= k as usize {
            port_to_dg.push(None);
        }
        port_to_dg[k as usize] = Some(di);
        dgs.push(Dg { src, payload: payload.clone(), delivered: 0, complete_arrivals: 0, must: false });
        for &i in &plan {
            // gaps between fragments: mostly small, sometimes across the reassembly timeout
            now += match tape.draw(16) {
                0 => 30_000_000,
                1 => 61_000_000,
                2 => 5_000_000,
                _ => tape.range(1, 50_000) as i64,
            };
            events += 1;
            hash.u64(now as u64);
            hash.bytes(&frags[i].2);
            node.dev.rx.push_back(frags[i].2.clone());
            stats.inc("frag.rx-fragments");
            let r = if via_poll { node.poll(now) } else { node.poll_ingress_single(now) };
            let info = match r {
                Ok(x) => x,
                Err(e) => {
                    result = Err(e);
                    break 'outer;
                }
            };
            let _ = info;
            if trace_on && trace.len() < 2000 {
                trace.push(format!("t={:>12.6}s fragment {}..{} of datagram #{} (ident {:#x}, {} octets, {} fragments)", now as f64 / 1e6, frags[i].0, frags[i].1, di, ident, l4.len(), frags.len()));
            }
            // reference ranges
            ranges.push((frags[i].0, frags[i].1));
            ranges.sort();
            let mut merged: Vec<(usize, usize)> = vec![];
            for (x, y) in ranges.drain(..) {
                if let Some(l) = merged.last_mut() {
                    if x <= l.1 {
                        l.1 = l.1.max(y);
                        continue;
                    }
                }
                merged.push((x, y));
            }
            ranges = merged;
            max_ranges = max_ranges.max(ranges.len());
            if ranges.len() == 1 && ranges[0] == (0, l4.len()) {
                completes += 1;
                if complete_at.is_none() {
                    complete_at = Some(now);
                }
                // a second complete set starts from scratch
                ranges.clear();
            }
            // ---- what did the socket get?
            loop {
                let so = node.sockets.get_mut::<udp::Socket>(h);
                let got = match guard("udp::recv", || so.recv().ok().map(|(b, m)| (b.to_vec(), m))) {
                    Ok(g) => g,
                    Err(e) => {
                        result = Err(e);
                        break 'outer;
                    }
                };
                let Some((data, meta)) = got else { break };
                stats.inc("reasm.delivered");
                hash.bytes(&data);
                // the source port names the datagram (payloads of different datagrams may coincide)
                let by_port = (meta.endpoint.port as usize).checked_sub(4000).and_then(|j| port_to_dg.get(j).copied().flatten());
                let m = by_port.filter(|j| dgs[*j].payload == data);
                match m {
                    Some(j) => {
                        dgs[j].delivered += 1;
                        if on && from_smol(&meta.endpoint.addr) != dgs[j].src {
                            result = Err(viol(pid, "reassembly", format!("{}.rx/reassembled-datagram-attributed-to-another-sender", pid), format!("datagram #{} from {} was delivered as coming from {}", j, dgs[j].src, meta.endpoint.addr)));
                            break 'outer;
                        }
                        let allowed = if j == di { completes } else { dgs[j].complete_arrivals };
                        if on && dgs[j].delivered > allowed {
                            result = Err(viol(pid, "reassembly", format!("{}.rx/delivered-more-often-than-completely-received", pid), format!("datagram #{} ({} octets) was delivered {} times although only {} complete set(s) of its fragments arrived", j, data.len(), dgs[j].delivered, allowed)));
                            break 'outer;
                        }
                    }
                    None => {
                        if on {
                            result = Err(viol(pid, "reassembly", format!("{}.rx/reassembled-datagram-is-none-of-the-datagrams-sent", pid), format!("the socket received {} octets from port {} that equal none of the {} datagrams sent so far (mixed or damaged reassembly)", data.len(), meta.endpoint.port, dgs.len())));
                            break 'outer;
                        }
                    }
                }
            }
        }
        dgs[di].complete_arrivals = completes;
        if share {
            for e in shared_by.iter_mut() {
                if e.0 == src {
                    e.1 = now;
                }
            }
        }
        // ---- must-deliver claim
        let in_time = complete_at.map(|t| t - first_at < 59_000_000).unwrap_or(false);
        let must = slot_free_at_start && in_time && max_ranges <= 3 && plan.len() <= 16;
        dgs[di].must = must;
        if must {
            stats.inc("reasm.must-deliver-claims");
            if on12 && dgs[di].delivered == 0 {
                result = Err(viol(
                    "C12",
                    "reassembly",
                    "C12.must-deliver/scripted-fragments-not-reassembled",
                    format!("datagram #{} ({} UDP octets in {} fragments, arrival order {:?}) arrived completely within {} us, never needed more than {} disjoint ranges, and the reassembly slot had been free for more than 61 s - yet it was not delivered", di, l4.len(), frags.len(), plan, complete_at.unwrap() - first_at, max_ranges),
                ));
                break 'outer;
            }
        }
        // the slot may stay occupied by this datagram (incomplete, too many ranges, late copies) for up to
        // 60 s after its last fragment was offered
        // (also when its fragments were spread over more than the timeout: the stack then dropped the first part
        // and holds the rest as a new, incomplete reassembly)
        // (and when the slot was not certainly free at its start: its first fragments may have been refused and
        // the later ones then opened a reassembly that can never complete)
        if completes == 0 || max_ranges > 3 || plan.len() > frags.len() || !in_time || !slot_free_at_start {
            slot_busy_until = now + 61_000_000;
        }
        // pause between datagrams: short, or across the timeout
        now += match tape.draw(6) {
            0 => 62_000_000,
            1 => 125_000_000,
            2 => 1_000_000,
            _ => tape.range(1, 200_000) as i64,
        };
        if via_poll && tape.draw(2) == 0 {
            stats.inc("reasm.pause-without-poll");
            continue;
        }
        if let Err(e) = node.poll(now) {
            result = Err(e);
            break;
        }
    }
    let nontrivial = stats.get("reasm.delivered") >= 1 && stats.get("reasm.datagrams-sent") >= 2;
    stats.add("sim.seconds", (now / 1_000_000) as u64);
    Outcome { viol: result.err(), stats, hash, nontrivial, trace, sim_us: now, events, cfg_desc: "reassembly: scripted fragment sender -> one real node (Medium::Ip, IPv4, one reassembly slot)".to_string() }
}

/// The same IPv4 packet with `opt` (a multiple of four octets) inserted after the fixed header.
fn with_v4_option(pkt: &[u8], opt: &[u8]) -> Vec<u8> {
    let mut w = pkt[..20].to_vec();
    w.extend_from_slice(opt);
    w.extend_from_slice(&pkt[20..]);
    w[0] = 0x40 | ((20 + opt.len()) / 4) as u8;
    let tl = pkt.len() + opt.len();
    w[2] = (tl >> 8) as u8;
    w[3] = tl as u8;
    w[10] = 0;
    w[11] = 0;
    let cs = inet_csum(&w[..20 + opt.len()], 0);
    w[10] = (cs >> 8) as u8;
    w[11] = cs as u8;
    w
}
