//! C13 with SLAAC: one real node on Ethernet with stateless address autoconfiguration enabled, a TCP
//! socket retrying towards a silent peer and a UDP socket (so that socket timers and neighbour
//! discovery back-off coexist with the SLAAC timers), and a scripted router that answers router
//! solicitations timely, late or never and advertises prefixes / default routes with lifetimes from
//! zero to infinity, also unsolicited.  The node is polled exactly at the instants `poll_at` returns.
//!
//! Oracles: an extra poll strictly before the returned instant (or, when no instant is returned,
//! up to 30 s later) with no frame delivered and no socket call in between transmits nothing (MLD
//! reports excepted, as in the statement); after a poll that neither received nor transmitted
//! anything the returned instant is strictly later than the poll or absent.

use crate::codec::*;
use crate::core::*;
use crate::mk::*;
use crate::tap::{self, NodeView};
use crate::tape::{LogHash, Tape};
use smoltcp::iface::SocketHandle;
use smoltcp::socket::{tcp, udp};
use smoltcp::wire::IpEndpoint;

const V_MAC: [u8; 6] = [2, 0, 0, 0, 0, 1];
const R_MAC: [u8; 6] = [2, 0, 0, 0, 0, 0x77];
const R2_MAC: [u8; 6] = [2, 0, 0, 0, 0, 0x78];

struct C<'a> {
    tape: &'a mut Tape,
    props: Props,
    node: Node,
    view: NodeView,
    now: i64,
    stats: Stats,
    hash: LogHash,
    trace: Vec<String>,
    trace_on: bool,
    events: u64,
    inflight: Vec<(i64, u64, Vec<u8>)>,
    seq: u64,
    router_policy: u8,
    udp: SocketHandle,
    idle_polls: u32,
    /// C16: the default route learnt from the router's advertisements is valid until this instant (the most recent
    /// advertisement decides: a shorter or zero router lifetime shortens or removes it)
    route_until: Option<i64>,
    /// a second router on the link (half of the runs): its advertisements come unsolicited, with lifetimes of their
    /// own; the default route through it is valid until this instant
    two_routers: bool,
    route2_until: Option<i64>,
    /// echo replies seen (to the probe of the application's own global address, builds with enough address slots)
    echo_replies: u32,
}

impl<'a> C<'a> {
    fn log(&mut self, f: impl FnOnce() -> String) {
        if self.trace_on && self.trace.len() < 3000 {
            let s = f();
            self.trace.push(format!("t={:>12.6}s {}", self.now as f64 / 1e6, s));
        }
    }
}

fn ll(host: u8) -> IpAddr {
    let mut a = [0u8; 16];
    a[0] = 0xfe;
    a[1] = 0x80;
    a[15] = host;
    IpAddr::V6(a)
}

pub fn run(tape: &mut Tape, props: Props, thorough: bool, trace_on: bool) -> Outcome {
    let mut cfg = NodeCfg::basic('V', Medium::Ethernet, 1514, 1, true);
    cfg.mac = V_MAC;
    cfg.addrs = vec![(ll(1), 64)];
    cfg.slaac = true;
    cfg.seed = 3 + tape.draw(1 << 16);
    let mut node = build_node(&cfg);
    let mut view = cfg.view();
    // addresses formed by SLAAC are the node's own as well (advertised /64 prefix + EUI-64 of the MAC)
    view.slaac_iid = Some([V_MAC[0] ^ 2, V_MAC[1], V_MAC[2], 0xff, 0xfe, V_MAC[3], V_MAC[4], V_MAC[5]]);
    // a TCP connection attempt towards a silent on-link peer: SYN retransmission timers
    let with_tcp = tape.draw(3) != 0;
    let t = tcp::Socket::new(tcp::SocketBuffer::new(vec![0; 256]), tcp::SocketBuffer::new(vec![0; 256]));
    let th = node.sockets.add(t);
    if with_tcp {
        let so = node.sockets.get_mut::<tcp::Socket>(th);
        let cx = node.iface.context();
        let _ = so.connect(cx, (to_smol(&ll(9)), 80), 40000);
    }
    let mut u = udp::Socket::new(udp::PacketBuffer::new(vec![udp::PacketMetadata::EMPTY; 4], vec![0u8; 256]), udp::PacketBuffer::new(vec![udp::PacketMetadata::EMPTY; 4], vec![0u8; 256]));
    u.bind(7000).unwrap();
    let uh = node.sockets.add(u);
    let router_policy = tape.draw(4) as u8;
    // builds with room for it: the application configures a global address of its own inside a prefix the router is
    // likely to advertise - it is the application's to remove, whatever happens to the advertised prefix
    let app_addr: Option<IpAddr> = if cfg_value("IFACE_MAX_ADDR_COUNT", 2) >= 4 && tape.draw(2) == 0 {
        let mut a = [0u8; 16];
        a[..4].copy_from_slice(&[0x20, 0x01, 0x0d, 0xb8]);
        a[5] = 1 + tape.draw(3) as u8;
        a[15] = 0x53;
        Some(IpAddr::V6(a))
    } else {
        None
    };
    if let Some(a) = &app_addr {
        let cidr = smoltcp::wire::IpCidr::new(to_smol(a), 64);
        node.iface.update_ip_addrs(|v| {
            let _ = v.push(cidr);
        });
        view.addrs.push((*a, 64));
    }
    let desc = format!("slaac-node tcp-connecting={} router-policy={} (0 timely, 1 late, 2 never, 3 timely+unsolicited) app-address={:?}", with_tcp, router_policy, app_addr);
    let mut c = C { tape, props, node, view, now: 0, stats: Stats::default(), hash: LogHash::new(), trace: vec![], trace_on, events: 0, inflight: vec![], seq: 0, router_policy, udp: uh, idle_polls: 0, route_until: None, two_routers: false, route2_until: None, echo_replies: 0 };
    c.two_routers = c.tape.draw(2) == 0;
    let mut r = body(&mut c, thorough);
    if let (Ok(()), Some(a)) = (&r, app_addr) {
        r = own_address_probe(&mut c, a);
    }
    let nontrivial = c.stats.get("slaac.router-solicitations") >= 1 && c.stats.get("c13.early-probes") >= 2;
    c.stats.add("sim.seconds", (c.now / 1_000_000) as u64);
    Outcome { viol: r.err(), stats: c.stats, hash: c.hash, nontrivial, trace: c.trace, sim_us: c.now, events: c.events, cfg_desc: desc }
}

fn router_advertisement(c: &mut C, dst: IpAddr, dst_mac: [u8; 6]) -> Vec<u8> {
    let router_lifetime: u16 = *c.tape.pick(&[1800u16, 0, 9, 30, 65535, 1800]);
    let valid: u32 = *c.tape.pick(&[2_592_000u32, 0, 5, 30, 700, u32::MAX, 120]);
    let preferred: u32 = match c.tape.draw(3) {
        0 => valid,
        1 => valid / 2,
        _ => *c.tape.pick(&[0u32, 10, u32::MAX]),
    };
    let mut body = vec![0u8; 8]; // reachable time, retrans timer
    // prefix information (with or without the autonomous flag), sometimes absent, sometimes two
    let n_prefix = *c.tape.pick(&[1usize, 1, 1, 0, 2]);
    for k in 0..n_prefix {
        let flags = *c.tape.pick(&[0xc0u8, 0xc0, 0x40, 0x80, 0x00]);
        let plen = *c.tape.pick(&[64u8, 64, 64, 48, 96]);
        body.extend_from_slice(&[3, 4, plen, flags]);
        body.extend_from_slice(&valid.to_be_bytes());
        body.extend_from_slice(&preferred.to_be_bytes());
        body.extend_from_slice(&[0; 4]);
        let mut p = [0u8; 16];
        p[0] = 0x20;
        p[1] = 0x01;
        p[2] = 0x0d;
        p[3] = 0xb8;
        p[5] = 1 + k as u8 + c.tape.draw(2) as u8;
        // a router may advertise nonsense: multicast, unspecified, loopback or link-local "prefixes"
        match c.tape.draw(12) {
            8 => p = [0xff, 0x02, 0, 0, 0, 0, 0, 0, 0, 0, 0, 0, 0, 0, 0, 0],
            9 => p = [0; 16],
            10 => p = [0xfe, 0x80, 0, 0, 0, 0, 0, 0, 0, 0, 0, 0, 0, 0, 0, 0],
            11 => {
                p = [0; 16];
                p[15] = 1;
            }
            _ => {}
        }
        body.extend_from_slice(&p);
    }
    // (the second router, when there is one, sends a third of the unsolicited advertisements)
    let second = c.two_routers && dst.is_multicast() && c.tape.draw(3) == 0;
    let (r_mac, r_ip) = if second { (R2_MAC, ll(0x78)) } else { (R_MAC, ll(0x77)) };
    body.extend_from_slice(&[1, 1]);
    body.extend_from_slice(&r_mac);
    let src = r_ip;
    let icmp = enc_icmp(true, &src, &dst, 134, 0, [64, 0, (router_lifetime >> 8) as u8, router_lifetime as u8], &body);
    c.stats.inc("slaac.router-advertisements");
    c.log(|| format!("router: RA router_lifetime={} valid={} preferred={} prefixes={}", router_lifetime, valid, preferred, n_prefix));
    enc_eth(dst_mac, r_mac, ETH_IPV6, &enc_ip(&src, &dst, P_ICMP6, 255, &icmp))
}

/// One poll at c.now; returns (frames received, frames transmitted that count for C13).
fn poll(c: &mut C, probe: bool) -> Result<(usize, usize), Violation> {
    c.events += 1;
    c.hash.u64(c.now as u64);
    let mut rx = 0;
    if !probe {
        c.inflight.sort_by_key(|x| (x.0, x.1));
        while let Some(f) = c.inflight.first() {
            if f.0 > c.now {
                break;
            }
            let (_, _, f) = c.inflight.remove(0);
            if f.len() >= 62 && f[12] == 0x86 && f[13] == 0xdd && f[20] == P_ICMP6 && f[54] == 134 {
                let life = ((f[60] as i64) << 8) | f[61] as i64;
                let until = if life == 0 { None } else { Some(c.now + life * 1_000_000) };
                if f[6..12] == R2_MAC {
                    c.route2_until = until;
                } else {
                    c.route_until = until;
                }
            }
            c.hash.bytes(&f);
            c.node.dev.rx.push_back(f);
            rx += 1;
        }
    }
    let now = c.now;
    let info = c.node.poll(now)?;
    let mut counted = 0;
    for raw in &info.tx {
        c.hash.bytes(raw);
        c.stats.inc("frames.tx");
        let pkt = tap::check_frame(c.props, &c.view, raw, &mut c.stats)?;
        let Some(p) = pkt else {
            counted += 1;
            continue;
        };
        let sm = p.summary();
        c.log(|| format!("V tx{} {}", if probe { " (probe)" } else { "" }, sm));
        // C16: a packet for an off-link destination leaves only through the router of an unexpired default route
        if c.props.has("C16") {
            if let (Some(e), Some(ip)) = (&p.eth, &p.ip) {
                if let IpAddr::V6(d) = ip.dst {
                    if d[0] == 0x20 && d[1] == 0x01 && d[2] == 0x48 {
                        // (each router's most recent advertisement decides about the route through that router)
                        let until = if e.dst == R2_MAC { c.route2_until } else { c.route_until };
                        let valid = until.map(|u| c.now <= u + 1_000).unwrap_or(false);
                        if !valid {
                            return Err(viol("C16", "next-hop", "C16.route/sent-through-a-router-whose-advertised-lifetime-is-over", format!("packet to the off-link destination {} transmitted at t={} us although the router's most recent advertisement makes the default route through it valid until {:?} (sent to {:02x?}): {}", ip.dst, c.now, until, e.dst, p.summary())));
                        }
                        if e.dst != R_MAC && !(c.two_routers && e.dst == R2_MAC) {
                            return Err(viol("C16", "next-hop", "C16.l2dst/wrong-hardware-address", format!("packet to the off-link destination {} sent to {:02x?}, the router is {:02x?}", ip.dst, e.dst, R_MAC)));
                        }
                    }
                }
            }
        }
        // MLD reports are not scheduled through poll_at (outside the claim)
        let mld = p.icmp6().map(|(_, i)| i.typ == 143).unwrap_or(false);
        if !mld {
            counted += 1;
        }
        if probe {
            continue;
        }
        if let Some((_, ic)) = p.icmp6() {
            if ic.typ == 129 && ic.rest[0] == 0x53 && ic.rest[1] == 0x53 {
                c.echo_replies += 1;
            }
        }
        if let Some((ip, ic)) = p.icmp6() {
            if ic.typ == 133 {
                c.stats.inc("slaac.router-solicitations");
                let (to, to_mac) = if ip.src.is_unspecified() || c.tape.draw(2) == 0 {
                    let mut a = [0u8; 16];
                    a[0] = 0xff;
                    a[1] = 0x02;
                    a[15] = 1;
                    (IpAddr::V6(a), [0x33, 0x33, 0, 0, 0, 1])
                } else {
                    (ip.src, V_MAC)
                };
                let delay = match c.router_policy {
                    0 | 3 => Some(1_000i64),
                    1 => Some(*c.tape.pick(&[2_000_000i64, 4_500_000, 13_000_000, 40_000_000])),
                    _ => None,
                };
                if let Some(d) = delay {
                    let f = router_advertisement(c, to, to_mac);
                    c.seq += 1;
                    c.inflight.push((c.now + d, c.seq, f));
                }
            }
            if ic.typ == 135 && ic.body.len() >= 16 {
                // neighbour solicitation for the router: answered; for the silent TCP peer: never
                let mut t = [0u8; 16];
                t.copy_from_slice(&ic.body[..16]);
                let which = if IpAddr::V6(t) == ll(0x77) { Some((ll(0x77), R_MAC)) } else if c.two_routers && IpAddr::V6(t) == ll(0x78) { Some((ll(0x78), R2_MAC)) } else { None };
                if let (Some((r_ip, r_mac)), false) = (which, ip.src.is_unspecified()) {
                    let mut body = t.to_vec();
                    body.extend_from_slice(&[2, 1]);
                    body.extend_from_slice(&r_mac);
                    let icmp = enc_icmp(true, &r_ip, &ip.src, 136, 0, [0x60, 0, 0, 0], &body);
                    let f = enc_eth(V_MAC, r_mac, ETH_IPV6, &enc_ip(&r_ip, &ip.src, P_ICMP6, 255, &icmp));
                    c.log(|| "router: neighbour advertisement".to_string());
                    c.seq += 1;
                    c.inflight.push((c.now + 1_000, c.seq, f));
                }
            }
        }
    }
    Ok((rx, counted))
}

/// C03's "still answers a well-formed request to one of its addresses", for the address the application configured
/// next to the autoconfigured ones: the router pings it at the end of the run.
fn own_address_probe(c: &mut C, a: IpAddr) -> Result<(), Violation> {
    if !c.props.has("C03") {
        return Ok(());
    }
    c.echo_replies = 0;
    // the router falls silent first: every advertisement that changes the address list also flushes the neighbour
    // cache, and the reply needs the router's hardware address (discovery is limited to one solicitation a second,
    // shared with the connecting TCP socket)
    c.inflight.clear();
    c.now += 2_000_000;
    poll(c, false)?;
    for attempt in 0..12u8 {
        let m = enc_icmp(true, &ll(0x77), &a, 128, 0, [0x53, 0x53, 0, attempt], b"own-address-probe");
        let f = enc_eth(V_MAC, R_MAC, ETH_IPV6, &enc_ip(&ll(0x77), &a, P_ICMP6, 64, &m));
        c.seq += 1;
        c.inflight.push((c.now + 1_000, c.seq, f));
        c.log(|| format!("router: echo request to {}", a));
        for _ in 0..6 {
            c.inflight.sort_by_key(|x| (x.0, x.1));
            c.now = c.inflight.first().map(|x| x.0).unwrap_or(c.now + 100_000).max(c.now);
            poll(c, false)?;
            if c.echo_replies > 0 {
                c.stats.inc("slaac.own-address-probes-answered");
                return Ok(());
            }
        }
        c.now += 1_100_000;
    }
    Err(viol("C03", "still-answers", "C03.wedged/slaac-node/configured-address-no-longer-answers", format!("the interface no longer answers an ICMPv6 echo request to {} - an address the application configured and never removed (12 attempts over more than 13 s with no other traffic, neighbour discovery answered); addresses now: {:?}", a, c.node.iface.ip_addrs())))
}

fn body(c: &mut C, thorough: bool) -> Result<(), Violation> {
    let on = c.props.has("C13");
    let steps = c.tape.range(10, if thorough { 300 } else { 120 });
    for _ in 0..steps {
        let (rx, tx) = poll(c, false)?;
        // ---- no spinning
        let now = c.now;
        let pa = c.node.poll_at(now)?;
        if rx == 0 && tx == 0 {
            if let Some(t) = pa {
                if t <= c.now {
                    c.idle_polls += 1;
                    if c.idle_polls >= 3 && on {
                        return Err(viol("C13", "no-spin", "C13.spin/slaac-node", format!("after {} consecutive polls at t={} us that moved no frame, poll_at still returns {} us (not later than the poll)", c.idle_polls, c.now, t)));
                    }
                    continue;
                }
            }
        }
        c.idle_polls = 0;
        // ---- occasional application activity (a socket call invalidates the previous deadline: re-read it)
        if c.tape.draw(8) == 0 {
            let h = c.udp;
            let dst = if c.tape.draw(2) == 0 { ll(0x77) } else { IpAddr::V6([0x20, 0x01, 0x48, 0x60, 0, 0, 0, 0, 0, 0, 0, 0, 0, 0, 0x88, 0x88]) };
            let so = c.node.sockets.get_mut::<udp::Socket>(h);
            let ep = IpEndpoint::new(to_smol(&dst), 9);
            let _ = guard("udp::send_slice", || so.send_slice(b"x", ep))?;
            c.stats.inc("slaac.app-sends");
            continue;
        }
        if c.router_policy == 3 && c.tape.draw(6) == 0 {
            // unsolicited advertisement
            let mut a = [0u8; 16];
            a[0] = 0xff;
            a[1] = 0x02;
            a[15] = 1;
            let f = router_advertisement(c, IpAddr::V6(a), [0x33, 0x33, 0, 0, 0, 1]);
            c.seq += 1;
            let d = c.tape.range(1_000, 20_000_000) as i64;
            c.inflight.push((c.now + d, c.seq, f));
        }
        c.inflight.sort_by_key(|x| (x.0, x.1));
        let nf = c.inflight.first().map(|x| x.0);
        // ---- sufficiency: an extra poll before the deadline (and before the next arrival) transmits nothing
        let horizon = match pa {
            Some(t) => t,
            None => c.now + 30_000_000,
        };
        let limit = nf.map(|f| f.min(horizon)).unwrap_or(horizon);
        if limit > c.now + 1 && c.tape.draw(3) != 0 {
            let span = (limit - c.now - 1) as u64;
            let t = c.now + 1 + c.tape.draw(span.max(1)) as i64;
            let t = match c.tape.draw(4) {
                0 => limit - 1,
                _ => t,
            };
            let save = c.now;
            c.now = t;
            // (what an advertisement taken in by the previous poll adds is installed by the next poll, whenever that
            // is - no frame can leave before that poll, so nothing observable is late: only what disappears counts)
            let state_of = |c: &C| -> Vec<String> {
                let mut v: Vec<String> = c.node.iface.ip_addrs().iter().map(|a| format!("{}", a)).collect();
                if c.node.iface.routes().get_default_ipv6_route().is_some() {
                    v.push("default-route".to_string());
                }
                v
            };
            let before = state_of(c);
            let (_, tx) = poll(c, true)?;
            c.stats.inc("c13.early-probes");
            // an address or route lifetime that ends is a protocol timer too: a poll before the announced deadline
            // (nothing delivered, no call in between) finds nothing to expire
            let after = state_of(c);
            // (judged only when the preceding poll took no frame in: what an advertisement withdraws is likewise
            // applied by the poll after the one that received it)
            if rx == 0 && before.iter().any(|x| !after.contains(x)) && on {
                return Err(viol(
                    "C13",
                    "sufficiency",
                    if pa.is_none() { "C13.early-expiry/slaac-node/poll_at-none" } else { "C13.early-expiry/slaac-node" },
                    format!("poll_at at t={} us returned {:?}; an extra poll at t={} us, with no frame delivered and no socket call in between, removed one of the interface's addresses / its default route: {:?} -> {:?}", save, pa, t, before, after),
                ));
            }
            if tx > 0 && on {
                return Err(viol(
                    "C13",
                    "sufficiency",
                    if pa.is_none() { "C13.early-tx/slaac-node/poll_at-none" } else { "C13.early-tx/slaac-node" },
                    format!("poll_at at t={} us returned {:?}; an extra poll at t={} us, with no frame delivered and no socket call in between, transmitted {} frame(s)", save, pa, t, tx),
                ));
            }
            // the probe is itself a poll: continue from there
            continue;
        }
        // ---- sleep until the deadline or the next arrival
        let next = match (pa, nf) {
            (Some(a), Some(b)) => a.min(b),
            (Some(a), None) => a,
            (None, Some(b)) => b,
            (None, None) => c.now + c.tape.range(1_000_000, 60_000_000) as i64,
        };
        c.now = next.max(c.now);
        if c.now > 4_000_000_000_000 {
            break;
        }
    }
    Ok(())
}
