//! T1 scenario: two real nodes, one TCP connection, faulty link.
//! Serves C01 (stream prefix / Finished => complete), C02 (liveness under exact polling),
//! C05(a) (sender wire monitor), C13 (poll_at probes), plus the always-on tap (C08b, C10) and
//! C08(c) (checksum-detectable corruption is equivalent to loss).

use crate::codec::*;
use crate::core::*;
use crate::mk::*;
use crate::tape::{stream_byte, Tape};
use crate::world::*;
use smoltcp::iface::SocketHandle;
use smoltcp::socket::tcp;
use smoltcp::time::Duration;
use std::sync::OnceLock;

fn dur_us(us: i64) -> Duration {
    Duration::from_micros(us as u64)
}

#[derive(Clone, Copy, Debug)]
pub struct Params {
    /// Exact poll discipline, no timeouts/aborts, liveness oracles on
    pub liveness: bool,
    pub thorough: bool,
    /// restrict the medium (None = drawn)
    pub force_medium: Option<Medium>,
    /// user time-outs may be configured although the poll discipline is exact (C13 only: the C02 oracles
    /// assume that nothing aborts a connection)
    pub timeouts_in_exact: bool,
}

/// Seeds whose first ISN lies shortly below 2^31 or 2^32 (found black-box through the public API).
pub fn wrap_seeds() -> &'static Vec<(u64, u32)> {
    static S: OnceLock<Vec<(u64, u32)>> = OnceLock::new();
    S.get_or_init(|| {
        let mut out = Vec::new();
        let mut cfg = NodeCfg::basic('x', Medium::Ip, 1500, 1, false);
        for seed in 0..300_000u64 {
            cfg.seed = seed;
            let mut n = build_node(&cfg);
            let s = tcp::Socket::new(tcp::SocketBuffer::new(vec![0; 64]), tcp::SocketBuffer::new(vec![0; 64]));
            let h = n.sockets.add(s);
            let cx = n.iface.context();
            n.sockets
                .get_mut::<tcp::Socket>(h)
                .connect(cx, (smoltcp::wire::IpAddress::v4(10, 0, 0, 2), 80), 1234)
                .unwrap();
            let info = n.poll(0).unwrap();
            if let Some(f) = info.tx.first() {
                if let Ok(p) = decode_ip(f, &Verify::all(), true) {
                    if let Some((_, t)) = p.tcp() {
                        let d31 = 0x8000_0000u32.wrapping_sub(t.seq);
                        let d32 = 0u32.wrapping_sub(t.seq);
                        if d31 < 300_000 || d32 < 300_000 || (d32 as u64) < 300_000 {
                            out.push((seed, t.seq));
                        }
                    }
                }
            }
            if out.len() >= 24 {
                break;
            }
        }
        out
    })
}

struct App {
    h: SocketHandle,
    to_send: u64,
    sent: u64,
    key_tx: u64,
    recvd: u64,
    closed: bool,
    eof: bool,
    err: bool,
    read_stall_until: i64,
    write_stall_until: i64,
    ever_established: bool,
    aborted: bool,
    abort_at_recvd: Option<u64>,
    rx_cap: usize,
    tx_cap: usize,
}

/// What a sender has learned from frames delivered to it + what it has put on the wire.
#[derive(Default, Clone)]
struct SenderMon {
    iss: Option<u32>,
    own_ws: Option<u8>,
    syn_seen: bool,
    /// peer's SYN as delivered to this sender: (mss option, ws option)
    peer_syn: Option<(Option<u16>, Option<u8>)>,
    /// highest right edge learned from delivered ACKs, as offset from iss
    edge: Option<i64>,
    /// highest sequence offset (from iss) sent so far (seq+len incl. SYN/FIN)
    max_sent: i64,
    fin_off: Option<i64>,
    peer_iss: Option<u32>,
    /// highest sequence number (seq+len) of peer data delivered to this node so far
    rx_high: Option<u32>,
}

pub struct TcpCfg {
    pub desc: String,
}

fn pick_buf(t: &mut Tape, thorough: bool) -> usize {
    let small = [2048usize, 64, 128, 256, 512, 1024, 4096, 8192, 1000, 100, 1500, 3000];
    let big = [16384usize, 65535, 65536, 131072, 262144, 70000];
    let k = t.draw(if thorough { 18 } else { 15 }) as usize;
    if k < small.len() {
        small[k]
    } else {
        big[k - small.len()]
    }
}

pub fn run(tape: &mut Tape, props: Props, p: &Params, trace_on: bool) -> Outcome {
    // ------------------------------------------------------------------ configuration
    let medium = match p.force_medium {
        Some(m) => {
            tape.draw(4);
            m
        }
        None => match tape.draw(4) {
            0 | 1 => Medium::Ip,
            _ => Medium::Ethernet,
        },
    };
    let v6 = tape.draw(2) == 1;
    let l2 = if medium == Medium::Ethernet { 14 } else { 0 };
    let mtus_v4 = [1500usize, 576, 1280, 300, 128, 68, 100, 200, 1006, 9000];
    let mtus_v6 = [1500usize, 1280, 1281, 1400, 9000];
    let mut mtu = [0usize; 2];
    for m in mtu.iter_mut() {
        *m = l2 + if v6 { *tape.pick(&mtus_v6) } else { *tape.pick(&mtus_v4) };
    }
    let mut cfgs = [NodeCfg::basic('A', medium, mtu[0], 1, v6), NodeCfg::basic('B', medium, mtu[1], 2, v6)];
    // one run in four uses addresses whose 16-bit words add up to almost 0xffff each, so that the pseudo-header sum of
    // some segment lengths lands exactly on the values where the end-around carry has to be folded twice
    if tape.draw(4) == 0 {
        for (i, c) in cfgs.iter_mut().enumerate() {
            c.addrs = if v6 {
                let mut a = [0u8; 16];
                a[0] = 0xfd;
                a[12] = 0x02;
                a[13] = 0xef;
                a[15] = 1 + i as u8;
                vec![(IpAddr::V6(a), 64)]
            } else {
                vec![(IpAddr::V4([192, 168, 63, 60 + i as u8]), 24)]
            };
        }
    }
    let mut rxb = [0usize; 2];
    let mut txb = [0usize; 2];
    for i in 0..2 {
        rxb[i] = pick_buf(tape, p.thorough);
        txb[i] = pick_buf(tape, p.thorough);
    }
    let mut cc: Vec<u64> = (0..2).map(|_| tape.draw(3)).collect();
    let mut nagle: Vec<bool> = (0..2).map(|_| tape.draw(2) == 0).collect();
    // focus profile "first flight": the connecting node writes a stream sized around the first window it is offered
    // (65535 octets: the unscaled window field of the SYN|ACK of a passive opener with a buffer above 64 KiB) and
    // closes at once, without congestion control; the passive opener is stalled while the flight arrives and takes
    // all of it, FIN included, in one go - before it has sent a single window update of its own
    let first_flight = tape.draw(24) == 23;
    if first_flight {
        rxb[1] = *tape.pick(&[65536usize, 100_000, 131_072, 262_144]);
        txb[0] = 262_144;
        // (not through a tiny MTU: thousands of segments per flight would only make the run slow)
        if mtu[0] - l2 < 576 {
            mtu[0] = l2 + 576;
            cfgs[0].mtu = mtu[0];
        }
        cc[0] = 0;
        nagle[0] = false;
    }
    let ack_delay: Vec<Option<i64>> = (0..2)
        .map(|_| match tape.draw(6) {
            0 => Some(10_000),
            1 => None,
            2 => Some(1_000),
            3 => Some(100_000),
            4 => Some(500_000),
            _ => Some(40_000),
        })
        .collect();
    let keep_alive: Vec<Option<i64>> = (0..2)
        .map(|_| match tape.draw(6) {
            0 | 1 | 2 => None,
            3 => Some(100_000),
            4 => Some(1_000_000),
            _ => Some(7_000_000),
        })
        .collect();
    let tstamp: Vec<bool> = (0..2).map(|_| tape.draw(4) == 3).collect();
    let timeout: Vec<Option<i64>> = (0..2)
        .map(|_| {
            let k = tape.draw(8);
            if p.liveness && !p.timeouts_in_exact {
                None
            } else {
                match k {
                    6 => Some(3_000_000),
                    7 => Some(30_000_000),
                    _ => None,
                }
            }
        })
        .collect();
    for c in cfgs.iter_mut() {
        c.max_burst = match tape.draw(6) {
            4 => Some(1),
            5 => Some(tape.range(2, 6) as usize),
            _ => None,
        };
    }
    let ws = wrap_seeds();
    let mut isn_note = String::new();
    for (i, c) in cfgs.iter_mut().enumerate() {
        let k = tape.draw(4);
        if k == 3 && !ws.is_empty() {
            let (s, isn) = ws[tape.draw(ws.len() as u64) as usize];
            c.seed = s;
            isn_note += &format!(" isn{}={:#x}", i, isn);
        } else {
            c.seed = 1000 + tape.draw(1 << 20);
        }
    }
    // checksum offload settings (rarely)
    let mut corrupt_ok = [true, true];
    for (i, c) in cfgs.iter_mut().enumerate() {
        if tape.draw(8) == 7 {
            for k in 0..5 {
                c.csum[k] = tape.draw(4) as u8;
            }
            // the peer must still verify what this node leaves unchecked on tx: a protocol whose tx
            // checksum is offloaded here is emitted unchecksummed, so the peer must not verify it.
        }
        corrupt_ok[i] = c.rx_verifies_all();
    }
    // tx-offloaded protocols need rx-offload on the other side, else nothing gets through
    for k in 0..5 {
        for i in 0..2 {
            let tx_off = cfgs[i].csum[k] == 2 || cfgs[i].csum[k] == 3;
            if tx_off {
                let o = 1 - i;
                cfgs[o].csum[k] = match cfgs[o].csum[k] {
                    0 => 1,
                    2 => 3,
                    x => x,
                };
                corrupt_ok[o] = false;
            }
        }
    }
    let cap_stream: u64 = if p.thorough { 1 << 20 } else { 64 * 1024 };
    let minwin = rxb.iter().copied().min().unwrap() as u64;
    let mut to_send = [0u64; 2];
    for i in 0..2 {
        let cap = cap_stream.min(300 * rxb[1 - i] as u64).min(300 * minwin.max(64));
        to_send[i] = match tape.draw(6) {
            0 => tape.range(1, 3000.min(cap)),
            1 => 0,
            2 => tape.range(0, 200.min(cap)),
            3 | 4 => tape.range(0, cap.min(20_000)),
            _ => tape.range(0, cap),
        };
    }
    let simultaneous = tape.draw(16) == 15;
    let backpressure = tape.draw(5) == 4;
    let abort_side: Option<usize> = if !p.liveness && tape.draw(12) == 11 { Some(tape.draw(2) as usize) } else { tape.draw(1); None };
    let mut link = LinkCfg::draw(tape, if p.thorough { 120 } else { 40 });
    link.corrupt_ok = corrupt_ok;
    let verifies = |c: &NodeCfg| -> [bool; 5] {
        let mut v = [false; 5];
        for k in 0..5 {
            v[k] = c.csum[k] == 0 || c.csum[k] == 2;
        }
        v
    };
    link.rx_verify = Some([verifies(&cfgs[0]), verifies(&cfgs[1])]);
    // focus profile: a zero-window episode (node 1's application does not read for a while, node 0 has more
    // to send than node 1 can buffer) during which node 1's segments are duplicated in late bursts - stale
    // ACKs / window values arrive after the window has reopened - and node 0's segments are lossy
    if first_flight {
        to_send[0] = *tape.pick(&[65535u64, 65534, 65536, 65535, 65533, 65537]);
        to_send[1] = tape.range(0, 200);
        link = LinkCfg::clean(1_000);
        link.rx_verify = Some([verifies(&cfgs[0]), verifies(&cfgs[1])]);
        link.profile_name = "first-flight";
    }
    let zero_window_focus = p.liveness && tape.draw(6) == 5;
    let mut initial_read_stall = 0i64;
    if zero_window_focus {
        initial_read_stall = *tape.pick(&[500_000i64, 1_500_000, 3_000_000, 8_000_000]);
        to_send[0] = to_send[0].max(3 * rxb[1] as u64 + 100).min(cap_stream.max(3 * rxb[1] as u64 + 100));
        // (or exactly what the reader's buffer holds, give or take an octet: the window closes with everything,
        // the FIN included, already in flight)
        let exact_fill = tape.draw(3) == 0;
        if exact_fill {
            // (half of the time into a buffer above 64 KiB, whose advertised window is rounded down to the scale unit)
            if tape.draw(2) == 0 {
                rxb[1] = *tape.pick(&[65536usize, 131_072, 100_000]);
            }
            to_send[0] = (rxb[1] as u64 + tape.draw(3)).saturating_sub(1).max(1);
        }
        link.dir[1].dup = 300 + tape.draw(400);
        link.dir[1].drop = if exact_fill { 50 + tape.draw(250) } else { tape.draw(50) };
        link.dir[1].big_delay = tape.draw(150);
        link.dir[0].drop = 100 + tape.draw(300);
        link.dir[0].dup = tape.draw(100);
        link.fault_end = link.fault_end.max(initial_read_stall + 3_000_000);
        link.profile_name = "zero-window-focus";
    }
    let sloppy = !p.liveness;
    let key = [tape.draw(u64::MAX) | 1, tape.draw(u64::MAX) | 2];

    let desc = format!(
        "tcp-pair medium={:?} v6={} mtu={:?} rx={:?} tx={:?} cc={:?} nagle={:?} ackdelay={:?} keepalive={:?} ts={:?} timeout={:?} burst=[{:?},{:?}] bytes={:?} simopen={} backpressure={} csum=[{:?},{:?}]{} liveness={} {}",
        medium, v6, mtu, rxb, txb, cc, nagle, ack_delay, keep_alive, tstamp, timeout, cfgs[0].max_burst, cfgs[1].max_burst, to_send, simultaneous, backpressure, cfgs[0].csum, cfgs[1].csum, isn_note, p.liveness, link.describe()
    );

    // ------------------------------------------------------------------ build the world
    let mut nodes = vec![build_node(&cfgs[0]), build_node(&cfgs[1])];
    let views = vec![cfgs[0].view(), cfgs[1].view()];
    let mut apps: Vec<App> = Vec::new();
    for i in 0..2 {
        let mut s = tcp::Socket::new(tcp::SocketBuffer::new(vec![0; rxb[i]]), tcp::SocketBuffer::new(vec![0; txb[i]]));
        s.set_congestion_control(match cc[i] {
            0 => tcp::CongestionControl::None,
            1 => tcp::CongestionControl::Reno,
            _ => tcp::CongestionControl::Cubic,
        });
        s.set_nagle_enabled(nagle[i]);
        s.set_ack_delay(ack_delay[i].map(dur_us));
        s.set_keep_alive(keep_alive[i].map(dur_us));
        s.set_timeout(timeout[i].map(dur_us));
        if tstamp[i] {
            s.set_tsval_generator(Some(tsval_gen));
        }
        // (derived from the stream key, not drawn: a hop limit other than the default on some endpoints)
        if key[i] & 4 == 0 {
            s.set_hop_limit(Some(1 + ((key[i] >> 8) % 254) as u8));
        }
        // idle bystander sockets: with several sockets in the set the interface has to combine deadlines
        // of sockets that have one with sockets that have none
        let bystander = |n: &mut Node| {
            let mut l = tcp::Socket::new(tcp::SocketBuffer::new(vec![0; 64]), tcp::SocketBuffer::new(vec![0; 64]));
            l.listen(9).unwrap();
            let hl = n.sockets.add(l);
            let mut u = smoltcp::socket::udp::Socket::new(
                smoltcp::socket::udp::PacketBuffer::new(vec![smoltcp::socket::udp::PacketMetadata::EMPTY; 1], vec![0u8; 64]),
                smoltcp::socket::udp::PacketBuffer::new(vec![smoltcp::socket::udp::PacketMetadata::EMPTY; 1], vec![0u8; 64]),
            );
            u.bind(9).unwrap();
            n.sockets.add(u);
            hl
        };
        let first = if i == 0 { Some(bystander(&mut nodes[i])) } else { None };
        let h = nodes[i].sockets.add(s);
        // in half of the runs the application then drops the first of them: the set has a hole in front of the
        // socket that does the work
        if let Some(hl) = first {
            if key[i] & 8 == 0 {
                nodes[i].sockets.remove(hl);
            }
        }
        if i == 1 {
            bystander(&mut nodes[i]);
        }
        apps.push(App {
            h,
            to_send: to_send[i],
            sent: 0,
            key_tx: key[i],
            recvd: 0,
            closed: false,
            eof: false,
            err: false,
            read_stall_until: if i == 1 { initial_read_stall } else { 0 },
            // (first-flight profile: the passive opener says nothing - no data, no close, hence no window update -
            // until well after the first flight has arrived)
            write_stall_until: if first_flight && i == 1 { 2_000_000 } else { 0 },
            ever_established: false,
            aborted: false,
            abort_at_recvd: if abort_side == Some(i) { Some(to_send[1 - i] / 2) } else { None },
            rx_cap: rxb[i],
            tx_cap: txb[i],
        });
    }
    let addr = |i: usize| to_smol(&cfgs[i].addrs[0].0);
    let ports = [40000u16, 80u16];
    // open
    {
        let r: Result<(), Violation> = (|| {
            if simultaneous {
                for i in 0..2 {
                    let remote = (addr(1 - i), ports[1 - i]);
                    let local = (addr(i), ports[i]);
                    let n = &mut nodes[i];
                    let cx = n.iface.context();
                    let s = n.sockets.get_mut::<tcp::Socket>(apps[i].h);
                    guard("tcp::connect", || s.connect(cx, remote, local).unwrap())?;
                }
            } else {
                let s = nodes[1].sockets.get_mut::<tcp::Socket>(apps[1].h);
                guard("tcp::listen", || s.listen(ports[1]).unwrap())?;
                let remote = (addr(1), ports[1]);
                let n = &mut nodes[0];
                let cx = n.iface.context();
                let s = n.sockets.get_mut::<tcp::Socket>(apps[0].h);
                guard("tcp::connect", || s.connect(cx, remote, ports[0]).unwrap())?;
            }
            Ok(())
        })();
        if let Err(v) = r {
            return Outcome { viol: Some(v), stats: Stats::default(), hash: crate::tape::LogHash::new(), nontrivial: false, trace: vec![], sim_us: 0, events: 0, cfg_desc: desc };
        }
    }
    let mut w = World::new(nodes, views, link, props, trace_on);
    w.schedule(0, Ev::App { node: 0 });
    w.schedule(0, Ev::App { node: 1 });
    if first_flight {
        w.schedule(2_000_000, Ev::App { node: 1 });
    }
    let fe = w.link.fault_end;
    w.schedule(fe, Ev::FaultEnd);

    let mut st = St {
        apps,
        mon: [SenderMon::default(), SenderMon::default()],
        p: *p,
        sloppy,
        backpressure,
        keep_alive: [keep_alive[0].is_some(), keep_alive[1].is_some()],
        burst_none: [cfgs[0].max_burst.is_none(), cfgs[1].max_burst.is_none()],
        last_progress: 0,
        last_states: [tcp::State::Closed; 2],
        last_sendq: [0; 2],
        touch: [0; 2],
        spin: [(0, 0); 2],
        mtu_ip: [mtu[0] - l2, mtu[1] - l2],
        v6,
        last_refused: [false; 2],
        medium,
        timeouts: [timeout[0].is_some(), timeout[1].is_some()],
        probes: [None, None],
        stall_total: initial_read_stall,
        node_stall_until: [0; 2],
        first_flight,
        first_flight_stalled: false,
    };
    let mut res = main_loop(&mut w, &mut st, tape);
    // ---- second life: the same two socket objects carry a second connection after the first one ended or was
    // cut short (abort with data still parked out of order, half-closed, mid-retransmission ...): nothing of the
    // first connection may leak into the second
    let reuse = res.is_ok() && (abort_side.is_some() || tape.draw(4) == 3);
    if reuse {
        res = (|| -> Result<(), Violation> {
            w.stats.inc("tcp.socket-reused");
            for i in 0..2 {
                let h = st.apps[i].h;
                let s = w.nodes[i].sockets.get_mut::<tcp::Socket>(h);
                guard("tcp::abort", || s.abort())?;
            }
            // let the resets leave, then a long quiet period: everything still in flight is gone
            for i in 0..2 {
                let now = w.now;
                w.nodes[i].dev.tx_budget = None;
                let _ = w.nodes[i].poll(now)?;
                w.nodes[i].dev.rx.clear();
            }
            w.q.clear();
            for e in w.evs.iter_mut() {
                *e = None;
            }
            w.now += 300_000_000;
            for i in 0..2 {
                let now = w.now;
                let _ = w.nodes[i].poll(now)?;
                w.nodes[i].dev.rx.clear();
                // the application drains what it had not read
                let h = st.apps[i].h;
                let s = w.nodes[i].sockets.get_mut::<tcp::Socket>(h);
                guard("tcp::recv", || {
                    while let Ok(n) = s.recv(|b| (b.len(), b.len())) {
                        if n == 0 {
                            break;
                        }
                    }
                })?;
            }
            let fresh = [tape.draw(u64::MAX) | 1, tape.draw(u64::MAX) | 2];
            // sometimes the application takes the socket out of the set and puts it back (a freed slot is reused and
            // the per-socket bookkeeping of the interface - neighbour back-off, handle - starts afresh)
            for i in 0..2 {
                if tape.draw(3) == 0 {
                    let h = st.apps[i].h;
                    let sockets = &mut w.nodes[i].sockets;
                    let h2 = guard("SocketSet::remove/add", || {
                        let s = sockets.remove(h);
                        sockets.add(s)
                    })?;
                    st.apps[i].h = h2;
                    w.stats.inc("tcp.socket-removed-and-readded");
                }
            }
            for i in 0..2 {
                let cap = 20 * st.apps[1 - i].rx_cap as u64 + 50;
                let a = &mut st.apps[i];
                a.to_send = tape.range(0, cap.min(60_000));
                a.sent = 0;
                a.key_tx = fresh[i];
                a.recvd = 0;
                a.closed = false;
                a.eof = false;
                a.err = false;
                a.read_stall_until = 0;
                a.write_stall_until = 0;
                a.ever_established = false;
                a.aborted = false;
                a.abort_at_recvd = None;
            }
            st.mon = [SenderMon::default(), SenderMon::default()];
            st.last_progress = w.now;
            st.last_states = [tcp::State::Closed; 2];
            st.last_sendq = [0; 2];
            st.spin = [(0, 0); 2];
            st.last_refused = [false; 2];
            st.probes = [None, None];
            let ports2 = [40001u16, 81u16];
            let s = w.nodes[1].sockets.get_mut::<tcp::Socket>(st.apps[1].h);
            guard("tcp::listen", || s.listen(ports2[1]).unwrap())?;
            let remote = (to_smol(&w.views[1].addrs[0].0), ports2[1]);
            let n = &mut w.nodes[0];
            let cx = n.iface.context();
            let s = n.sockets.get_mut::<tcp::Socket>(st.apps[0].h);
            guard("tcp::connect", || s.connect(cx, remote, ports2[0]).unwrap())?;
            w.link.fault_end = w.now + tape.range(0, 20) as i64 * 1_000_000;
            let now = w.now;
            w.schedule(now, Ev::App { node: 0 });
            w.schedule(now, Ev::App { node: 1 });
            let fe = w.link.fault_end;
            w.schedule(fe, Ev::FaultEnd);
            main_loop(&mut w, &mut st, tape)
        })();
    }
    let viol = res.err();
    let ooo = w.stats.get("tcp.rx-out-of-order");
    let rexmit = w.stats.get("tcp.retransmission");
    let delivered = st.apps[0].recvd + st.apps[1].recvd;
    let faults: u64 = w.stats.c.iter().filter(|(k, _)| k.starts_with("fault.")).map(|(_, v)| *v).sum();
    let nontrivial = faults > 0 && (ooo + rexmit) > 0 && delivered >= 1000;
    w.stats.add("sim.seconds", (w.now / 1_000_000) as u64);
    Outcome { viol, stats: w.stats.clone(), hash: w.hash, nontrivial, trace: std::mem::take(&mut w.trace), sim_us: w.now, events: w.events, cfg_desc: desc }
}

struct St {
    apps: Vec<App>,
    mon: [SenderMon; 2],
    p: Params,
    sloppy: bool,
    backpressure: bool,
    keep_alive: [bool; 2],
    burst_none: [bool; 2],
    last_progress: i64,
    last_states: [tcp::State; 2],
    last_sendq: [usize; 2],
    /// incremented on every frame arrival / socket call on the node (for C13 probes)
    touch: [u64; 2],
    /// (instant, consecutive no-progress services at that instant)
    spin: [(i64, u32); 2],
    mtu_ip: [usize; 2],
    v6: bool,
    last_refused: [bool; 2],
    medium: Medium,
    timeouts: [bool; 2],
    probes: [Option<ProbeArm>; 2],
    /// total duration of application read/write stalls drawn so far
    stall_total: i64,
    /// a stalled node (fault kind of the sloppy discipline): until this instant the node does not run at all - frames
    /// pile up in its device, deadlines pass - and then takes everything in at once
    node_stall_until: [i64; 2],
    first_flight: bool,
    first_flight_stalled: bool,
}

fn sock<'a>(w: &'a World, st: &St, n: usize) -> &'a tcp::Socket<'static> {
    w.nodes[n].sockets.get::<tcp::Socket>(st.apps[n].h)
}

fn complete(w: &World, st: &St) -> bool {
    for n in 0..2 {
        let a = &st.apps[n];
        let peer = &st.apps[1 - n];
        if !(a.closed && a.eof && a.recvd == peer.to_send) {
            return false;
        }
        let s = sock(w, st, n).state();
        if !(s == tcp::State::Closed || s == tcp::State::TimeWait) {
            return false;
        }
    }
    true
}

fn main_loop(w: &mut World, st: &mut St, tape: &mut Tape) -> Result<(), Violation> {
    let ev_cap: u64 = if st.p.thorough { 400_000 } else { 20_000 };
    let total: u64 = st.apps[0].to_send + st.apps[1].to_send;
    let unit = (st.apps[0].rx_cap.min(st.apps[1].rx_cap).min(st.mtu_ip[0] - 60).min(st.mtu_ip[1] - 60)).max(1) as u64;
    let rtt = 2 * w.link.base_us + 500_000;
    let time_cap: i64 = w.link.fault_end + 600_000_000 + 40 * ((total + unit - 1) / unit) as i64 * rtt;
    loop {
        if w.events >= ev_cap {
            w.stats.inc("run.event-cap");
            return Ok(());
        }
        let Some(ev) = w.pop() else {
            // nothing can ever happen again
            if st.p.liveness && !complete(w, st) && w.props.has("C02") {
                return Err(deadlock_violation(w, st));
            }
            w.stats.inc("run.quiescent");
            return Ok(());
        };
        if st.p.liveness && w.props.has("C02") && w.now > w.link.fault_end {
            let since = st.last_progress.max(w.link.fault_end);
            if w.now - since > 400_000_000 && !complete(w, st) {
                return Err(viol(
                    "C02",
                    "bounded-progress",
                    format!("C02.progress/{}", state_sig(w, st)),
                    format!("no progress for 400 simulated seconds after faults stopped (last progress at {} us, now {} us); {}", since, w.now, describe(w, st)),
                ));
            }
            if w.now > time_cap + 2 * st.stall_total && !complete(w, st) {
                return Err(viol(
                    "C02",
                    "total-bound",
                    format!("C02.total-bound/{}", state_sig(w, st)),
                    format!("transfer+close not complete {} s after faults stopped; {}", (w.now - w.link.fault_end) / 1_000_000, describe(w, st)),
                ));
            }
        }
        if !st.p.liveness && w.now > w.link.fault_end + 900_000_000 {
            w.stats.inc("run.time-cap");
            return Ok(());
        }
        match ev {
            Ev::Arrive { to, frame, corrupted, pkt } => {
                st.touch[to] += 1;
                w.stats.inc("frames.delivered");
                if let Some(p) = &pkt {
                    on_deliver(w, st, to, p);
                }
                if corrupted == 1 && w.props.has("C08") && w.stats.get("c08.corrupt-alone-checked") < 150 {
                    // (at most 150 isolated checks per run: each one renders the socket, buffers included)
                    c08c_check(w, st, to, frame, tape)?;
                    service(w, st, to, tape)?;
                } else {
                    w.nodes[to].dev.rx.push_back(frame);
                    if st.first_flight && to == 1 && !st.first_flight_stalled && pkt.as_ref().and_then(|p| p.tcp()).map(|(_, t)| t.has(F_SYN)).unwrap_or(false) {
                        // the passive opener answers the SYN and is then stalled: the handshake's last ACK and the whole
                        // first flight are waiting in its device when it runs again
                        st.first_flight_stalled = true;
                        service(w, st, 1, tape)?;
                        let d = *tape.pick(&[300_000i64, 800_000, 150_000]);
                        st.node_stall_until[1] = w.now + d;
                        w.stats.inc("fault.node-stall");
                        w.schedule(w.now + d, Ev::App { node: 1 });
                    } else if w.now < st.node_stall_until[to] {
                        // stalled: the frame waits in the device
                    } else if st.sloppy && w.faults_active() && tape.chance(1, 40) {
                        let d = *tape.pick(&[30_000i64, 120_000, 400_000, 1_500_000]);
                        st.node_stall_until[to] = w.now + d;
                        w.stats.inc("fault.node-stall");
                        w.schedule(w.now + d, Ev::App { node: to });
                    } else if st.sloppy && tape.chance(1, 8) {
                        // batch: leave the frame in the rx queue, poll a bit later
                        let d = tape.range(1, 20_000) as i64;
                        w.stats.inc("sched.batched-rx");
                        w.schedule(w.now + d, Ev::App { node: to });
                    } else {
                        service(w, st, to, tape)?;
                    }
                }
            }
            Ev::Deadline { node, .. } | Ev::App { node } if w.now < st.node_stall_until[node] => {
                // stalled node: the service scheduled for the end of the stall picks everything up
                let _ = node;
            }
            Ev::Deadline { node, generation } => {
                if generation == w.gens[node] {
                    if st.sloppy && tape.chance(1, 10) {
                        // stalled node: polls late
                        let d = *tape.pick(&[1_000i64, 50_000, 700_000, 5_000_000]);
                        w.stats.inc("sched.late-poll");
                        w.gens[node] += 1;
                        w.schedule(w.now + d, Ev::App { node });
                    } else {
                        service(w, st, node, tape)?;
                    }
                }
            }
            Ev::App { node } => {
                service(w, st, node, tape)?;
            }
            Ev::FaultEnd => {
                st.last_progress = st.last_progress.max(w.now);
            }
            Ev::Misc(k) if k < 2 => w.release_swap(k as usize),
            Ev::Misc(k) if k >= 100 && k < 102 => {
                // C13 sufficiency probe armed earlier: valid only if nothing touched the node since
                let n = (k - 100) as usize;
                probe_fire(w, st, n, tape)?;
            }
            Ev::Misc(_) => {}
        }
        if st.p.liveness && complete(w, st) {
            w.stats.inc("run.completed");
            return Ok(());
        }
    }
}

struct ProbeArm {
    touch: u64,
    generation: u64,
}

fn probe_fire(w: &mut World, st: &mut St, n: usize, tape: &mut Tape) -> Result<(), Violation> {
    let arm = st.probes[n].take();
    let Some(arm) = arm else { return Ok(()) };
    if arm.touch != st.touch[n] || arm.generation != w.gens[n] {
        return Ok(());
    }
    if !w.nodes[n].dev.rx.is_empty() {
        return Ok(());
    }
    w.stats.inc("c13.early-polls");
    w.nodes[n].dev.tx_budget = None;
    let (info, frames) = w.poll_node(n, tape)?;
    let _ = info;
    for f in &frames {
        let exempt = match &f.pkt {
            Some(p) => matches!(&p.l4, Some(L4::Igmp(_))) || matches!(&p.l4, Some(L4::Icmp6(i)) if i.typ == 143),
            None => false,
        };
        if !exempt {
            let what = f.pkt.as_ref().map(|p| p.summary()).unwrap_or_default();
            return Err(viol(
                "C13",
                "sufficiency",
                format!("C13.early-tx/{}", frame_kind(f.pkt.as_ref())),
                format!("poll before the instant returned by poll_at (no frames, no socket calls in between) transmitted: {} ; {}", what, describe(w, st)),
            ));
        }
    }
    // the early poll is a legal history; carry on from here
    finish_service(w, st, n, tape, true)?;
    Ok(())
}

fn frame_kind(p: Option<&Packet>) -> String {
    match p {
        Some(p) => match &p.l4 {
            Some(L4::Tcp(t)) => format!("tcp[{}]{}", t.flag_str(), if t.payload.is_empty() { "" } else { "+data" }),
            Some(L4::Udp(_)) => "udp".into(),
            Some(L4::Icmp4(i)) => format!("icmp4-{}", i.typ),
            Some(L4::Icmp6(i)) => format!("icmp6-{}", i.typ),
            _ => if p.arp.is_some() { "arp".into() } else { "other".into() },
        },
        None => "undecodable".into(),
    }
}

/// C08 clause 3: a frame whose checksum provably fails is delivered alone; it must be equivalent
/// to no frame at all.
fn c08c_check(w: &mut World, st: &mut St, to: usize, frame: Vec<u8>, tape: &mut Tape) -> Result<(), Violation> {
    // flush whatever is queued first so that the damaged frame is processed alone
    if !w.nodes[to].dev.rx.is_empty() {
        service(w, st, to, tape)?;
    }
    if !w.nodes[to].dev.rx.is_empty() {
        // the device refused to hand out frames (tx ring full): cannot isolate the damaged frame
        w.nodes[to].dev.rx.push_back(frame);
        w.stats.inc("c08.corrupt-not-isolated");
        return Ok(());
    }
    let before = format!("{:?}", w.nodes[to].sockets.get::<tcp::Socket>(st.apps[to].h));
    w.nodes[to].dev.tx_budget = None;
    w.nodes[to].dev.rx.push_back(frame.clone());
    let info = w.nodes[to].poll_ingress_single(w.now)?;
    let after = format!("{:?}", w.nodes[to].sockets.get::<tcp::Socket>(st.apps[to].h));
    w.stats.inc("c08.corrupt-alone-checked");
    if !info.tx.is_empty() {
        let reply = decode_frame(st.medium, &info.tx[0], &Verify::none()).map(|p| p.summary()).unwrap_or_default();
        return Err(viol("C08", "corrupt-equals-loss", "C08.corrupt/reply-emitted", format!("a frame failing its checksum was answered with: {} ; damaged frame={}", reply, crate::tap::hex(&frame))));
    }
    if before != after {
        let (a, b) = first_diff(&before, &after);
        return Err(viol("C08", "corrupt-equals-loss", "C08.corrupt/socket-changed", format!("a frame failing its checksum changed socket state: before=..{}.. after=..{}.. ; damaged frame={}", a, b, crate::tap::hex(&frame))));
    }
    Ok(())
}

pub fn first_diff(a: &str, b: &str) -> (String, String) {
    let i = a.bytes().zip(b.bytes()).position(|(x, y)| x != y).unwrap_or(a.len().min(b.len()));
    let s = i.saturating_sub(60);
    let cut = |x: &str| -> String { x.chars().skip(s).take(160).collect() };
    (cut(a), cut(b))
}

fn on_deliver(_w: &mut World, st: &mut St, to: usize, p: &Packet) {
    // the sender `to` learns from segments delivered to it
    if let Some((_ip, t)) = p.tcp() {
        let m = &mut st.mon[to];
        if !t.payload.is_empty() {
            match m.rx_high {
                Some(h) if seq_lt(h, t.seq) => {
                    _w.stats.inc("tcp.rx-out-of-order");
                    m.rx_high = Some(t.seq.wrapping_add(t.payload.len() as u32));
                }
                Some(h) => {
                    let e = t.seq.wrapping_add(t.payload.len() as u32);
                    if seq_lt(h, e) {
                        m.rx_high = Some(e);
                    } else {
                        _w.stats.inc("tcp.rx-duplicate-data");
                    }
                }
                None => m.rx_high = Some(t.seq.wrapping_add(t.payload.len() as u32)),
            }
        }
        if t.has(F_SYN) {
            m.peer_syn = Some((t.opts.mss, t.opts.wscale));
            m.peer_iss = Some(t.seq);
        }
        if t.has(F_ACK) && !t.has(F_RST) {
            if let Some(iss) = m.iss {
                let shift = if t.has(F_SYN) {
                    0
                } else {
                    match (m.own_ws, m.peer_syn) {
                        (Some(_), Some((_, Some(pw)))) => pw.min(14),
                        _ => 0,
                    }
                };
                let ack_off = seq_diff(t.ack, iss);
                // only acceptable ACKs teach a window (ack within what was sent)
                if ack_off >= 0 && ack_off <= m.max_sent {
                    let e = ack_off + ((t.win as i64) << shift);
                    if m.edge.map(|x| e > x).unwrap_or(true) {
                        m.edge = Some(e);
                    }
                }
            }
        }
    }
}

/// One service of node n: poll (+wire oracles), application step, repeat while the application
/// acts; then read poll_at back and schedule it.
fn service(w: &mut World, st: &mut St, n: usize, tape: &mut Tape) -> Result<(), Violation> {
    let mut rounds = 0;
    let mut progressed = false;
    loop {
        rounds += 1;
        w.nodes[n].dev.tx_budget = if st.backpressure && w.faults_active() { Some(tape.draw(4) as usize) } else { None };
        let q_before = sock(w, st, n).recv_queue();
        let (info, frames) = w.poll_node(n, tape)?;
        let q_after = sock(w, st, n).recv_queue();
        st.last_refused[n] = info.refused > 0;
        if info.refused > 0 {
            w.stats.add("fault.tx-ring-refused", info.refused);
        }
        if info.rx_consumed > 0 || !frames.is_empty() {
            progressed = true;
        }
        for f in &frames {
            if let Some(p) = &f.pkt {
                wire_oracles(w, st, n, p, q_before, q_after)?;
            }
        }
        // C13 no-spin, evaluated right after a poll that moved no frame
        if w.props.has("C13") && info.rx_consumed == 0 && frames.is_empty() && info.refused == 0 && w.nodes[n].dev.rx.is_empty() {
            let d = w.nodes[n].poll_at(w.now)?;
            if let Some(d) = d {
                if d <= w.now {
                    // tolerated once (state may legitimately settle in one idle poll); counted below
                    let (t0, c) = st.spin[n];
                    st.spin[n] = if t0 == w.now { (t0, c + 1) } else { (w.now, 1) };
                    if st.spin[n].1 > 3 {
                        return Err(viol(
                            "C13",
                            "no-spin",
                            format!("C13.spin/{}", state_sig(w, st)),
                            format!("after {} consecutive polls at t={}us that moved no frame, poll_at still returns {}us (not later than now); {}", st.spin[n].1, w.now, d, describe(w, st)),
                        ));
                    }
                }
            }
        }
        let did = app_step(w, st, n, tape)?;
        if did {
            st.touch[n] += 1;
            progressed = true;
        }
        if !did || rounds >= 50 {
            break;
        }
        // the usual event loop shape: poll, socket calls, then straight to poll_at to decide how long to sleep
        if tape.chance(1, 5) {
            w.stats.inc("sched.sleep-decided-right-after-socket-calls");
            break;
        }
    }
    let _ = progressed;
    finish_service(w, st, n, tape, false)
}

fn finish_service(w: &mut World, st: &mut St, n: usize, tape: &mut Tape, from_probe: bool) -> Result<(), Violation> {
    // progress bookkeeping
    for i in 0..2 {
        let s = sock(w, st, i);
        let (state, q, rq) = (s.state(), s.send_queue(), s.recv_queue());
        if state != st.last_states[i] {
            st.last_states[i] = state;
            st.last_progress = w.now;
            if state == tcp::State::Established || state == tcp::State::CloseWait {
                st.apps[i].ever_established = true;
            }
        }
        if q < st.last_sendq[i] {
            st.last_progress = w.now;
        }
        st.last_sendq[i] = q;
        w.stats.cover(((i as u64) << 40) | ((state as u64) << 8) | ((q > 0) as u64) << 1 | (rq > 0) as u64);
    }
    let d = w.refresh_deadline(n)?;
    // C02 oracle 1: unacknowledged data / SYN / FIN  =>  finite deadline
    if w.props.has("C02") && st.p.liveness {
        let s = sock(w, st, n);
        let state = s.state();
        let needs = state != tcp::State::Closed && (s.send_queue() > 0 || matches!(state, tcp::State::SynSent | tcp::State::SynReceived | tcp::State::FinWait1 | tcp::State::Closing | tcp::State::LastAck));
        if needs && d.is_none() {
            return Err(viol(
                "C02",
                "finite-deadline",
                format!("C02.deadline/{}", sock_sig(w, st, n)),
                format!("node {} has unacknowledged data/SYN/FIN (state {}, send_queue {}) but Interface::poll_at returned None; {}", w.nodes[n].name, state, sock(w, st, n).send_queue(), describe(w, st)),
            ));
        }
    }
    // a deadline not in the future: service again at this instant (bounded by the spin counter)
    if let Some(at) = d {
        if at <= w.now {
            let (t0, c) = st.spin[n];
            if t0 != w.now {
                st.spin[n] = (w.now, 0);
            } else if c > 8 {
                // never let a run busy-loop; move on in time
                w.gens[n] += 1;
                let g = w.gens[n];
                w.stats.inc("sched.spin-break");
                w.schedule(w.now + 1_000, Ev::Deadline { node: n, generation: g });
            }
        }
    }
    // arm a C13 sufficiency probe: poll somewhere strictly before the deadline
    if w.props.has("C13") && !from_probe && !st.last_refused[n] && w.nodes[n].dev.rx.is_empty() && tape.chance(1, 6) {
        let at = match d {
            Some(d) if d > w.now + 1 => Some(w.now + 1 + tape.draw((d - w.now - 1) as u64) as i64),
            Some(_) => None,
            None => Some(w.now + 1 + tape.draw(5_000_000) as i64),
        };
        if let Some(at) = at {
            st.probes[n] = Some(ProbeArm { touch: st.touch[n], generation: w.gens[n] });
            w.schedule(at, Ev::Misc(100 + n as u32));
        }
    } else {
        tape.draw(1);
    }
    // sloppy discipline: occasional gratuitous early poll
    if st.sloppy && tape.chance(1, 16) {
        let d = tape.range(1, 300_000) as i64;
        w.stats.inc("sched.extra-poll");
        w.schedule(w.now + d, Ev::App { node: n });
    }
    Ok(())
}

fn app_step(w: &mut World, st: &mut St, n: usize, tape: &mut Tape) -> Result<bool, Violation> {
    let now = w.now;
    let mut did = false;
    let mut stall_add: i64 = 0;
    let peer_closed = st.apps[1 - n].closed;
    let peer_sent = st.apps[1 - n].sent;
    let peer_key = st.apps[1 - n].key_tx;
    let liveness = st.p.liveness;
    let h = st.apps[n].h;
    let a = &mut st.apps[n];
    let s = w.nodes[n].sockets.get_mut::<tcp::Socket>(h);
    let state = s.state();
    if matches!(state, tcp::State::Established | tcp::State::CloseWait) {
        a.ever_established = true;
    }
    // the application reconfigures keep-alive on a live connection now and then (an armed keep-alive
    // deadline has to be honoured or dropped consistently by poll_at and dispatch)
    if a.ever_established && tape.draw(40) == 39 {
        let new = if s.keep_alive().is_some() { None } else { Some(dur_us(*tape.pick(&[100_000i64, 1_000_000, 5_000_000]))) };
        guard("tcp::set_keep_alive", || s.set_keep_alive(new))?;
        if new.is_some() {
            st.keep_alive[n] = true;
        }
        w.stats.inc("app.keep-alive-reconfigured");
        did = true;
    }
    // ... and the delayed-ACK and Nagle settings (an ACK may be waiting for its delay at that moment)
    if a.ever_established && tape.draw(40) == 39 {
        if tape.draw(2) == 0 {
            let new = *tape.pick(&[None, Some(10_000i64), Some(200_000), None]);
            guard("tcp::set_ack_delay", || s.set_ack_delay(new.map(dur_us)))?;
            w.stats.inc("app.ack-delay-reconfigured");
        } else {
            let new = tape.draw(2) == 0;
            guard("tcp::set_nagle_enabled", || s.set_nagle_enabled(new))?;
            w.stats.inc("app.nagle-reconfigured");
        }
        did = true;
    }
    if a.err || a.aborted {
        return Ok(false);
    }
    // ---- write
    if !a.closed && a.sent < a.to_send && s.may_send() && now >= a.write_stall_until {
        let room = s.send_capacity() - s.send_queue();
        if room > 0 {
            let want = tape.size(1, (a.to_send - a.sent).min(2 * a.tx_cap as u64)) as usize;
            let buf: Vec<u8> = (0..want as u64).map(|j| stream_byte(a.key_tx, a.sent + j)).collect();
            // send_slice, or the closure form (which hands out one contiguous piece of the ring and lets the
            // application use only a part of it)
            let k = if tape.draw(4) == 0 {
                let part = tape.draw(4);
                w.stats.inc("app.send-with-closure");
                guard("tcp::send", || {
                    s.send(|b| {
                        let mut k = b.len().min(buf.len());
                        if part == 0 && k > 1 {
                            k /= 2;
                        }
                        b[..k].copy_from_slice(&buf[..k]);
                        (k, k)
                    })
                })?
            } else {
                guard("tcp::send_slice", || s.send_slice(&buf))?
            };
            match k {
                Ok(k) => {
                    if k > want {
                        return Err(viol("C01", "api", "C01.send-overcount", format!("send_slice accepted {} of {} bytes", k, want)));
                    }
                    a.sent += k as u64;
                    if k > 0 {
                        did = true;
                        w.stats.add("app.bytes-written", k as u64);
                    }
                }
                Err(_) => {}
            }
            if tape.chance(1, 12) {
                let d = *tape.pick(&[5_000i64, 100_000, 1_500_000, 8_000_000]);
                a.write_stall_until = now + d;
                stall_add += d;
                w.stats.inc("app.write-stall");
                let at = now + d;
                w.schedule(at, Ev::App { node: n });
            }
        }
    }
    // ---- close once everything is written
    let s = w.nodes[n].sockets.get_mut::<tcp::Socket>(h);
    if !a.closed && a.sent == a.to_send && s.may_send() && now >= a.write_stall_until {
        guard("tcp::close", || s.close())?;
        a.closed = true;
        did = true;
        w.stats.inc("app.close");
    }
    // ---- read
    let s = w.nodes[n].sockets.get_mut::<tcp::Socket>(h);
    let state = s.state();
    let handshake = matches!(state, tcp::State::Listen | tcp::State::SynSent | tcp::State::SynReceived);
    let peer_fin_seen = matches!(state, tcp::State::CloseWait | tcp::State::LastAck | tcp::State::Closing | tcp::State::TimeWait | tcp::State::Closed);
    if !a.eof && !handshake && a.ever_established && (now >= a.read_stall_until || (liveness && peer_fin_seen)) {
        let mut buf = vec![0u8; 0];
        let mut reads = 0;
        loop {
            reads += 1;
            let chunk = tape.size(1, (a.rx_cap as u64).max(1) * 2) as usize;
            buf.resize(chunk, 0);
            let use_peek = tape.chance(1, 10);
            if use_peek {
                // peek must show the same bytes the following recv returns
                let r = guard("tcp::peek_slice", || s.peek_slice(&mut buf[..]))?;
                if let Ok(k) = r {
                    for j in 0..k {
                        if buf[j] != stream_byte(peer_key, a.recvd + j as u64) {
                            return Err(viol("C01", "stream-prefix", "C01.peek-mismatch", format!("peek returned a wrong byte at stream offset {}", a.recvd + j as u64)));
                        }
                    }
                }
            }
            // recv_slice, or the closure form consuming only a part of the contiguous piece it is shown
            let r = if tape.draw(4) == 0 {
                let part = tape.draw(3);
                w.stats.inc("app.recv-with-closure");
                let bufm = &mut buf;
                guard("tcp::recv", || {
                    s.recv(|b| {
                        let mut k = b.len().min(bufm.len());
                        if part == 0 && k > 1 {
                            k -= k / 3;
                        }
                        bufm[..k].copy_from_slice(&b[..k]);
                        (k, k)
                    })
                })?
            } else {
                guard("tcp::recv_slice", || s.recv_slice(&mut buf[..]))?
            };
            match r {
                Ok(0) => break,
                Ok(k) => {
                    if k > chunk {
                        return Err(viol("C01", "api", "C01.recv-overcount", format!("recv_slice returned {} into a {} byte buffer", k, chunk)));
                    }
                    if a.recvd + k as u64 > peer_sent {
                        return Err(viol(
                            "C01",
                            "stream-prefix",
                            "C01.prefix/more-than-written",
                            format!("node {} was handed {} bytes but the peer application has only written {}", w.nodes[n].name, a.recvd + k as u64, peer_sent),
                        ));
                    }
                    for j in 0..k {
                        let exp = stream_byte(peer_key, a.recvd + j as u64);
                        if buf[j] != exp {
                            return Err(viol(
                                "C01",
                                "stream-prefix",
                                "C01.prefix/wrong-byte",
                                format!("node {} received byte {:#04x} at stream offset {} where the peer wrote {:#04x} (delivered so far {}, peer wrote {})", w.nodes[n].name, buf[j], a.recvd + j as u64, exp, a.recvd, peer_sent),
                            ));
                        }
                    }
                    a.recvd += k as u64;
                    did = true;
                    st.last_progress = now;
                    w.stats.add("app.bytes-delivered", k as u64);
                    if let Some(at) = a.abort_at_recvd {
                        if a.recvd >= at {
                            guard("tcp::abort", || s.abort())?;
                            a.aborted = true;
                            w.stats.inc("app.abort");
                            return Ok(true);
                        }
                    }
                    if !(liveness && peer_fin_seen) && tape.chance(1, 10) {
                        let d = *tape.pick(&[10_000i64, 200_000, 2_000_000, 20_000_000]);
                        a.read_stall_until = now + d;
                        stall_add += d;
                        w.stats.inc("app.read-stall");
                        w.schedule(now + d, Ev::App { node: n });
                        break;
                    }
                    if reads > 4000 {
                        break;
                    }
                }
                Err(tcp::RecvError::Finished) => {
                    a.eof = true;
                    did = true;
                    w.stats.inc("app.finished");
                    if (!peer_closed || a.recvd != peer_sent) && liveness && w.props.has("C02") && !w.props.has("C01") {
                        // under the liveness property the same event reads: octets accepted by send will now never reach
                        // the peer application
                        return Err(viol("C02", "delivery", "C02.delivery/stream-ended-before-every-accepted-octet-was-delivered", format!("node {} was told Finished after {} bytes; the peer application wrote {} bytes (closed={}): the rest can never be delivered", w.nodes[n].name, a.recvd, peer_sent, peer_closed)));
                    }
                    if !peer_closed || a.recvd != peer_sent {
                        return Err(viol(
                            "C01",
                            "finished-complete",
                            format!("C01.finished/{}", if !peer_closed { "peer-not-closed" } else { "tail-missing" }),
                            format!("node {} was told Finished after {} bytes; the peer application wrote {} bytes (closed={})", w.nodes[n].name, a.recvd, peer_sent, peer_closed),
                        ));
                    }
                    break;
                }
                Err(tcp::RecvError::InvalidState) => {
                    a.err = true;
                    w.stats.inc("app.recv-invalid-state");
                    if liveness && w.props.has("C02") {
                        return Err(viol(
                            "C02",
                            "no-spurious-reset",
                            format!("C02.reset/state={}", state),
                            format!("node {} connection ended with an error (no timeout, no abort configured) after {} of {} bytes", w.nodes[n].name, a.recvd, peer_sent),
                        ));
                    }
                    break;
                }
            }
        }
    }
    st.stall_total += stall_add;
    Ok(did)
}

/// C05(a): every segment a real sender emits, against what it has learned.
fn wire_oracles(w: &mut World, st: &mut St, n: usize, p: &Packet, q_before: usize, q_after: usize) -> Result<(), Violation> {
    let Some((ip, t)) = p.tcp() else { return Ok(()) };
    // statistics
    let m = &mut st.mon[n];
    if t.has(F_RST) {
        w.stats.inc("tcp.rst-sent");
        return Ok(());
    }
    if t.has(F_SYN) {
        if m.iss.is_none() || m.iss != Some(t.seq) {
            // (a new incarnation would reset the monitor)
            *m = SenderMon { peer_syn: m.peer_syn, peer_iss: m.peer_iss, ..SenderMon::default() };
            m.iss = Some(t.seq);
        }
        m.own_ws = t.opts.wscale;
        m.syn_seen = true;
    }
    let Some(iss) = m.iss else { return Ok(()) };
    let off = seq_diff(t.seq, iss);
    let len = t.payload.len() as i64;
    let end = off + t.seg_len() as i64;
    let check = w.props.has("C05");
    if off + len <= m.max_sent && len > 0 {
        w.stats.inc("tcp.retransmission");
    }
    if (t.seq >= 0x7ff0_0000 && t.seq < 0x8010_0000) || t.seq >= 0xfff0_0000 || t.seq < 0x0010_0000 {
        w.stats.inc("tcp.seq-near-wrap");
    }
    if check {
        let app = &st.apps[n];
        let detail = |what: &str| format!("{}: node {} emitted {} ; iss={} max_sent_off={} edge={:?} peer_syn={:?} app_written={} closed={}", what, w.nodes[n].name, p.summary(), iss, m.max_sent, m.edge, m.peer_syn, app.sent, app.closed);
        // --- content
        if len > 0 {
            let is_keepalive = st.keep_alive[n] && len == 1 && t.payload[0] == 0 && off + 1 <= m.max_sent.max(1) && !t.has(F_SYN) && !t.has(F_FIN);
            let data_off = off - 1; // stream offset of first payload byte
            let mut content_ok = data_off >= 0 && (data_off + len) as u64 <= app.sent;
            if content_ok {
                for j in 0..len {
                    if t.payload[j as usize] != stream_byte(app.key_tx, (data_off + j) as u64) {
                        content_ok = false;
                        break;
                    }
                }
            }
            if !content_ok && !is_keepalive {
                let kind = if off + len <= m.max_sent { "retransmit" } else { "new" };
                return Err(viol("C05", "payload", format!("C05.payload/{}", kind), detail("payload differs from the application's bytes at those sequence numbers")));
            }
            if is_keepalive && !content_ok {
                w.stats.inc("tcp.keepalive-probe");
            }
            // --- MSS
            let bound = match m.peer_syn {
                Some((Some(mss), _)) if mss != 0 => (mss as i64).max(48),
                _ => 536,
            };
            if len > bound {
                return Err(viol("C05", "mss", "C05.mss/exceeds-peer-mss", detail(&format!("payload of {} bytes exceeds the peer's MSS bound {}", len, bound))));
            }
            let iplen = ip.hdr_len + ip.payload.len();
            if iplen > st.mtu_ip[n] {
                return Err(viol("C05", "mss", "C05.mss/exceeds-local-mtu", detail(&format!("IP datagram of {} bytes exceeds the local MTU {}", iplen, st.mtu_ip[n]))));
            }
            // --- window (relaxed: max over delivered ACKs)
            if !is_keepalive {
                match m.edge {
                    Some(e) => {
                        let ok = off + len <= e || (len == 1 && off <= e);
                        if !ok {
                            let kind = if off + len <= m.max_sent { "retransmit" } else { "new" };
                            return Err(viol("C05", "window", format!("C05.window/{}{}", kind, if t.has(F_FIN) { "+fin" } else { "" }), detail(&format!("segment [{}..{}) lies beyond the highest right edge {} learned from any delivered ACK", off, off + len, e))));
                        }
                    }
                    None => {
                        return Err(viol("C05", "window", "C05.window/data-before-any-window", detail("data sent before any window was learned")));
                    }
                }
                // --- contiguity of new data
                if off > m.max_sent {
                    return Err(viol("C05", "contiguity", "C05.contiguity/gap", detail(&format!("new data starts at offset {} leaving a gap after {}", off, m.max_sent))));
                }
            }
        }
        // --- FIN position and finality
        if t.has(F_FIN) {
            let fin_off = off + len;
            let expect = 1 + app.sent as i64;
            if !app.closed || fin_off != expect {
                return Err(viol("C05", "fin", "C05.fin/wrong-position", detail(&format!("FIN at offset {} but the application wrote {} bytes (closed={})", fin_off, app.sent, app.closed))));
            }
            m.fin_off = Some(fin_off);
        }
        if let Some(f) = m.fin_off {
            if end > f + 1 {
                return Err(viol("C05", "fin", "C05.fin/data-after-fin", detail(&format!("sequence space up to {} used after FIN at {}", end, f))));
            }
        }
        // --- window field
        if st.burst_none[n] {
            let cap = app.rx_cap as i64;
            if t.has(F_SYN) {
                let exp = cap.min(65535);
                // the rx buffer is empty while SYNs are sent
                if t.win as i64 != exp {
                    return Err(viol("C05", "window-field", "C05.winfield/syn-scaled", detail(&format!("SYN carries window {} but the unscaled free space is {}", t.win, exp))));
                }
            } else {
                let shift = match (m.own_ws, m.peer_syn) {
                    (Some(s), Some((_, Some(_)))) => s as i64,
                    (_, None) => -1, // peer SYN not delivered to us yet (e.g. we are a listener answering): skip
                    _ => 0,
                };
                if shift >= 0 && m.syn_seen {
                    let lo = ((cap - q_after as i64).max(0) >> shift).min(65535);
                    let hi = ((cap - q_before as i64).max(0) >> shift).min(65535);
                    let wv = t.win as i64;
                    if wv < lo || wv > hi {
                        return Err(viol("C05", "window-field", "C05.winfield/not-scaled-free-space", detail(&format!("window field {} not in [{}..{}] (capacity {}, queue {}..{}, shift {})", wv, lo, hi, cap, q_before, q_after, shift))));
                    }
                }
            }
        }
    }
    if end > m.max_sent {
        m.max_sent = end;
    }
    Ok(())
}

fn dbg_field(dbg: &str, name: &str) -> String {
    match dbg.find(name) {
        Some(i) => dbg[i + name.len()..].chars().take_while(|c| c.is_alphanumeric() || *c == '_').collect(),
        None => "?".into(),
    }
}

fn sock_sig(w: &World, st: &St, n: usize) -> String {
    let s = sock(w, st, n);
    let d = format!("{:?}", s);
    // Debug of the socket starts with the small fields; cut before the buffers
    let timer = dbg_field(&d, "timer: ");
    let fr = dbg_field(&d, "pending_fast_retransmit: ");
    let win = dbg_field(&d, "remote_win_len: ");
    let s = sock(w, st, n);
    format!("state={},timer={},win{}0,txq{}0,fast_rtx_pending={}", s.state(), timer, if win == "0" { "=" } else { ">" }, if s.send_queue() > 0 { ">" } else { "=" }, fr)
}

fn state_sig(w: &World, st: &St) -> String {
    format!("A:{}|B:{}", sock_sig(w, st, 0), sock_sig(w, st, 1))
}

fn describe(w: &World, st: &St) -> String {
    let mut s = String::new();
    for n in 0..2 {
        let a = &st.apps[n];
        let so = w.nodes[n].sockets.get::<tcp::Socket>(a.h);
        let d = format!("{:?}", so);
        let head: String = strip_storage(&d);
        s += &format!(
            "[{} state={} sendq={} recvq={} app(sent={}/{} recvd={} closed={} eof={} err={}) dbg={}…] ",
            w.nodes[n].name,
            so.state(),
            so.send_queue(),
            so.recv_queue(),
            a.sent,
            a.to_send,
            a.recvd,
            a.closed,
            a.eof,
            a.err,
            head
        );
    }
    s
}

fn deadlock_violation(w: &World, st: &St) -> Violation {
    viol(
        "C02",
        "deadlock",
        format!("C02.deadlock/{}", state_sig(w, st)),
        format!("no frame in flight, no deadline on either node, no pending application action, but the transfer/close is incomplete; {}", describe(w, st)),
    )
}

/// Remove the `storage: [...]` byte dumps from a socket's Debug rendering.
pub fn strip_storage(d: &str) -> String {
    let mut out = String::new();
    let mut rest = d;
    while let Some(i) = rest.find("storage: ") {
        out += &rest[..i];
        out += "storage: [..]";
        let after = &rest[i..];
        match after.find(']') {
            Some(j) => rest = &after[j + 1..],
            None => {
                rest = "";
            }
        }
    }
    out += rest;
    out.chars().take(3000).collect()
}
