//! Wire tap: always-on frame monitors (C08 clause 2, C10) applied to every frame a real node emits.

use crate::codec::*;
use crate::core::*;

/// What the tap knows about the emitting node.
#[derive(Clone, Debug)]
pub struct NodeView {
    pub medium: Medium,
    /// device MTU (for Ethernet this includes the 14-byte header, as in smoltcp)
    pub mtu: usize,
    pub addrs: Vec<(IpAddr, u8)>,
    /// checksums the node computes in software on transmit
    pub tx_verify: Verify,
    /// the node has raw sockets that may transmit verbatim IP headers
    pub raw_tx: bool,
    /// the node runs a DHCP client (may legitimately use 0.0.0.0)
    pub dhcp: bool,
    /// addresses granted by DHCP ACKs that the client ingested in the poll being examined: the client
    /// already holds them, the application has not yet seen the Configured event
    pub dhcp_leased_unapplied: Vec<IpAddr>,
    /// a DHCP client socket runs but no application applies its leases to the interface (adversary scenario):
    /// the client's own messages (68 -> 67) are then sourced from an address only the socket knows
    pub dhcp_unmanaged: bool,
    /// SLAAC is enabled: addresses the stack forms itself from advertised /64 prefixes and this interface
    /// identifier are its own
    pub slaac_iid: Option<[u8; 8]>,
    /// hardware address of the interface (6 octets on Ethernet, 8 or 2 on IEEE 802.15.4, empty on Medium::Ip):
    /// the link-layer address options of its own NDISC messages must carry it, in an option of the right length
    pub hw_addr: Vec<u8>,
}

pub struct Tapped {
    pub raw: Vec<u8>,
    pub pkt: Option<Packet>,
}

fn in_subnet(a: &IpAddr, net: &IpAddr, plen: u8) -> bool {
    let (a, n) = (a.bytes(), net.bytes());
    if a.len() != n.len() {
        return false;
    }
    let full = (plen / 8) as usize;
    if a[..full] != n[..full] {
        return false;
    }
    let rem = plen % 8;
    if rem == 0 {
        return true;
    }
    let m = 0xffu8 << (8 - rem);
    a[full] & m == n[full] & m
}

pub fn is_subnet_broadcast(view: &NodeView, a: &IpAddr) -> bool {
    if let IpAddr::V4(b) = a {
        for (n, plen) in &view.addrs {
            if let IpAddr::V4(nb) = n {
                if *plen >= 31 {
                    continue;
                }
                let mask = if *plen == 0 { 0 } else { u32::MAX << (32 - *plen as u32) };
                let nn = u32::from_be_bytes(*nb);
                let bb = u32::from_be_bytes(*b);
                if bb == (nn & mask) | !mask {
                    return true;
                }
            }
        }
    }
    false
}

pub fn on_link(view: &NodeView, a: &IpAddr) -> bool {
    view.addrs.iter().any(|(n, p)| in_subnet(a, n, *p))
}

/// C10 + C08(b) verdict on one emitted frame. Returns the decoded packet when decodable.
pub fn check_frame(props: Props, view: &NodeView, raw: &[u8], stats: &mut Stats) -> Result<Option<Packet>, Violation> {
    if view.medium == Medium::Ieee802154 {
        // handled by the 6LoWPAN tap (codec6lo) in the scenarios that use that medium
        return Ok(None);
    }
    if raw.len() > view.mtu {
        if props.has("C10") {
            return Err(viol(
                "C10",
                "mtu",
                "C10.mtu/frame-exceeds-device-mtu",
                format!("frame of {} bytes exceeds device MTU {}", raw.len(), view.mtu),
            ));
        }
    }
    let pkt = match decode_frame(view.medium, raw, &view.tx_verify) {
        Ok(p) => p,
        Err(e) => {
            // Was it a verbatim raw-socket packet? Raw sockets re-emit the header via the stack, so
            // the frame still has to be well-formed; only the source rule is exempt.
            match e.kind {
                ErrKind::Checksum => {
                    if props.has("C08") {
                        return Err(viol(
                            "C08",
                            "emitted-valid",
                            format!("C08.emit/{}", e.layer),
                            format!("emitted frame fails independent checksum: {} {} ; frame={}", e.layer, e.msg, hex(raw)),
                        ));
                    }
                    if props.has("C10") {
                        return Err(viol(
                            "C10",
                            "wellformed",
                            format!("C10.checksum/{}", e.layer),
                            format!("emitted frame fails independent checksum: {} {} ; frame={}", e.layer, e.msg, hex(raw)),
                        ));
                    }
                }
                ErrKind::Malformed => {
                    if props.has("C10") {
                        return Err(viol(
                            "C10",
                            "wellformed",
                            format!("C10.malformed/{}:{}", e.layer, strip_digits(&e.msg)),
                            format!("emitted frame is not well-formed: {} {} ; frame={}", e.layer, e.msg, hex(raw)),
                        ));
                    }
                }
            }
            return Ok(None);
        }
    };
    // checksum coverage probe: len mod 4 x protocol
    if let Some(ip) = &pkt.ip {
        match &pkt.l4 {
            Some(L4::Tcp(_)) => stats.inc(["csum.tcp.len%4=0", "csum.tcp.len%4=1", "csum.tcp.len%4=2", "csum.tcp.len%4=3"][ip.payload.len() % 4]),
            Some(L4::Udp(_)) => stats.inc(["csum.udp.len%4=0", "csum.udp.len%4=1", "csum.udp.len%4=2", "csum.udp.len%4=3"][ip.payload.len() % 4]),
            Some(L4::Icmp4(_)) | Some(L4::Icmp6(_)) => stats.inc(["csum.icmp.len%4=0", "csum.icmp.len%4=1", "csum.icmp.len%4=2", "csum.icmp.len%4=3"][ip.payload.len() % 4]),
            _ => {}
        }
    }
    if props.has("C10") {
        if let Some(ip) = &pkt.ip {
            check_source_rule(view, ip, &pkt)?;
            check_semantics(view, ip, &pkt, raw)?;
        }
        if let Some(arp) = &pkt.arp {
            let spa = IpAddr::V4(arp.spa);
            if !view.addrs.iter().any(|(a, _)| *a == spa) {
                return Err(viol(
                    "C10",
                    "source",
                    "C10.source/arp-spa-not-own",
                    format!("ARP sender protocol address {} is not an address of the interface", spa),
                ));
            }
        }
    }
    Ok(Some(pkt))
}

fn check_source_rule(view: &NodeView, ip: &Ip, pkt: &Packet) -> Result<(), Violation> {
    // later fragments repeat the header of the first one, which was judged when it left (the interface's
    // addresses may have changed since the datagram entered the fragmenter)
    if ip.v4.as_ref().map(|v| v.frag_off > 0).unwrap_or(false) {
        return Ok(());
    }
    if view.raw_tx {
        if let Some(L4::Other(_)) = pkt.l4 {
            return Ok(());
        }
    }
    let src = &ip.src;
    if view.dhcp_unmanaged {
        if let Some(L4::Udp(u)) = &pkt.l4 {
            if u.sport == 68 && u.dport == 67 {
                return Ok(());
            }
        }
    }
    if let Some(L4::Udp(u)) = &pkt.l4 {
        if view.dhcp && u.sport == 68 && u.dport == 67 && view.dhcp_leased_unapplied.contains(src) && !view.addrs.iter().any(|(a, _)| a == src) {
            return Err(viol(
                "C10",
                "source",
                "C10.source/dhcp-leased-address-before-the-application-applied-it",
                format!("DHCP REQUEST sourced from the leased address {} in the same poll that ingested the ACK granting it; the interface's addresses are {:?}: {}", src, view.addrs, pkt.summary()),
            ));
        }
    }
    if src.is_multicast() || src.is_limited_broadcast() || is_subnet_broadcast(view, src) {
        let what = match &pkt.l4 {
            Some(L4::Tcp(t)) if t.has(F_RST) => "tcp-rst",
            Some(L4::Tcp(_)) => "tcp",
            Some(L4::Udp(_)) => "udp",
            Some(L4::Icmp4(_)) => "icmpv4",
            Some(L4::Icmp6(_)) => "icmpv6",
            _ => "other",
        };
        let cls = if src.is_multicast() { "multicast" } else { "broadcast" };
        return Err(viol(
            "C10",
            "source",
            format!("C10.source/{}-from-{}", what, cls),
            format!("frame sourced from non-unicast address {}: {}", src, pkt.summary()),
        ));
    }
    if src.is_unspecified() {
        // legal: DHCP client messages before a lease; MLD reports / DAD-style NS without address.
        // (IGMP: RFC 3376 4.2.13 tolerates reports from 0.0.0.0, but no protocol requires them - the statement
        // admits the unspecified source only "where the protocol requires it", and the stack sends no IGMP
        // message while it has no IPv4 address)
        let ok = match &pkt.l4 {
            Some(L4::Udp(u)) => view.dhcp && u.sport == 68 || u.dport == 67,
            Some(L4::Icmp6(i)) => i.typ == 143 || i.typ == 135 || i.typ == 133,
            _ => false,
        };
        if !ok {
            return Err(viol(
                "C10",
                "source",
                "C10.source/unspecified",
                format!("frame sourced from the unspecified address: {}", pkt.summary()),
            ));
        }
        return Ok(());
    }
    if let Some(iid) = view.slaac_iid {
        if !src.is_v4() && src.bytes()[8..] == iid {
            return Ok(());
        }
    }
    if !view.addrs.iter().any(|(a, _)| a == src) {
        // raw sockets supply their own header; exempt
        if view.raw_tx {
            return Ok(());
        }
        if let Some(L4::Udp(u)) = &pkt.l4 {
            if view.dhcp && u.sport == 68 && u.dport == 67 && view.dhcp_leased_unapplied.contains(src) {
                return Err(viol(
                    "C10",
                    "source",
                    "C10.source/dhcp-leased-address-before-the-application-applied-it",
                    format!("DHCP REQUEST sourced from the leased address {} in the same poll that ingested the ACK granting it; the interface's addresses are {:?}: {}", src, view.addrs, pkt.summary()),
                ));
            }
        }
        if src.is_loopback() && !src.is_v4() {
            return Err(viol(
                "C10",
                "source",
                "C10.source/ipv6-loopback",
                format!("IP source is the loopback address ::1, which is not configured on the interface {:?}: {}", view.addrs, pkt.summary()),
            ));
        }
        return Err(viol(
            "C10",
            "source",
            "C10.source/not-own-address",
            format!("IP source {} is not an address of the interface {:?}: {}", src, view.addrs, pkt.summary()),
        ));
    }
    Ok(())
}

/// Protocol-specific well-formedness beyond the header syntax.
/// The semantic well-formedness rules for one decoded packet of a node (used directly for datagrams that were
/// decompressed from 6LoWPAN frames).
pub fn check_packet_semantics(view: &NodeView, pkt: &Packet) -> Result<(), Violation> {
    match &pkt.ip {
        Some(ip) => check_semantics(view, ip, pkt, &[]),
        None => Ok(()),
    }
}

fn check_semantics(view: &NodeView, ip: &Ip, pkt: &Packet, _raw: &[u8]) -> Result<(), Violation> {
    let mal = |sig: &str, detail: String| -> Result<(), Violation> {
        Err(viol("C10", "wellformed", format!("C10.semantic/{}", sig), format!("{} ; {}", detail, pkt.summary())))
    };
    match &pkt.l4 {
        Some(L4::Icmp4(i)) => {
            match i.typ {
                3 | 11 | 12 => {
                    // error: body holds the offending IP header + >= 8 bytes, total <= 576
                    if i.body.len() < 20 {
                        return mal("icmpv4-error-body-short", format!("ICMPv4 error body of {} bytes", i.body.len()));
                    }
                    if i.body[0] >> 4 != 4 {
                        return mal("icmpv4-error-body-not-ip", "ICMPv4 error body is not an IPv4 header".into());
                    }
                    if ip.v4.as_ref().unwrap().total_len > 576 {
                        return mal("icmpv4-error-too-big", format!("ICMPv4 error datagram of {} bytes > 576", ip.v4.as_ref().unwrap().total_len));
                    }
                }
                _ => {}
            }
        }
        Some(L4::Icmp6(i)) => {
            match i.typ {
                1 | 2 | 3 | 4 => {
                    if i.body.len() < 40 {
                        return mal("icmpv6-error-body-short", format!("ICMPv6 error body of {} bytes", i.body.len()));
                    }
                    if i.body[0] >> 4 != 6 {
                        return mal("icmpv6-error-body-not-ip", "ICMPv6 error body is not an IPv6 header".into());
                    }
                    if ip.hdr_len + ip.payload.len() > 1280 {
                        return mal("icmpv6-error-too-big", format!("ICMPv6 error datagram of {} bytes > 1280", ip.hdr_len + ip.payload.len()));
                    }
                }
                133..=137 => {
                    if ip.hop != 255 {
                        return mal("ndisc-hop-limit", format!("NDISC message with hop limit {}", ip.hop));
                    }
                    // options: after fixed part
                    let fixed = match i.typ {
                        133 => 0,
                        134 => 8,
                        135 | 136 => 16,
                        _ => 32,
                    };
                    if i.body.len() < fixed {
                        return mal("ndisc-short", format!("NDISC type {} body {} bytes", i.typ, i.body.len()));
                    }
                    let mut o = &i.body[fixed..];
                    while !o.is_empty() {
                        if o.len() < 2 || o[1] == 0 || (o[1] as usize) * 8 > o.len() {
                            return mal("ndisc-option-length", format!("NDISC option length invalid: {:?}", &o[..o.len().min(8)]));
                        }
                        // source (1) / target (2) link-layer address option: RS, NS, RA carry the sender's own
                        // address as source option, NA as target option; the option is as long as the medium's address
                        // needs (RFC 4861 4.6.1, RFC 4944 8: 8 octets for Ethernet and 802.15.4 short addresses, 16
                        // for EUI-64)
                        let own_opt = (o[0] == 1 && matches!(i.typ, 133 | 134 | 135)) || (o[0] == 2 && i.typ == 136);
                        if own_opt && !view.hw_addr.is_empty() {
                            let want = (2 + view.hw_addr.len()).div_ceil(8);
                            let n = (o[1] as usize) * 8;
                            if o[1] as usize != want || o[2..2 + view.hw_addr.len()] != view.hw_addr[..] || o[2 + view.hw_addr.len()..n].iter().any(|b| *b != 0) {
                                return mal("ndisc-link-layer-address-option", format!("link-layer address option {:02x?} does not carry the interface's hardware address {:02x?} in {} x 8 octets", &o[..n.min(o.len())], view.hw_addr, want));
                            }
                        }
                        o = &o[(o[1] as usize) * 8..];
                    }
                    if (i.typ == 135 || i.typ == 136) && i.body[0] == 0xff {
                        return mal("ndisc-target-multicast", "NS/NA target is multicast".into());
                    }
                }
                143 => {
                    if ip.hop != 1 {
                        return mal("mld-hop-limit", format!("MLDv2 report with hop limit {}", ip.hop));
                    }
                    let has_ra = ip.hbh.as_ref().map(|h| {
                        let mut i = 0;
                        let mut found = false;
                        while i < h.len() {
                            if h[i] == 0 {
                                i += 1;
                                continue;
                            }
                            if i + 1 >= h.len() {
                                break;
                            }
                            if h[i] == 5 {
                                found = true;
                            }
                            i += 2 + h[i + 1] as usize;
                        }
                        found
                    });
                    if has_ra != Some(true) {
                        return mal("mld-no-router-alert", "MLD report without hop-by-hop router alert".into());
                    }
                    // records
                    let n = ((i.rest[2] as usize) << 8) | i.rest[3] as usize;
                    let mut o = &i.body[..];
                    for _ in 0..n {
                        if o.len() < 20 {
                            return mal("mld-record-short", "MLD record truncated".into());
                        }
                        let aux = o[1] as usize * 4;
                        let ns = ((o[2] as usize) << 8 | o[3] as usize) * 16;
                        if o.len() < 20 + ns + aux {
                            return mal("mld-record-short", "MLD record truncated".into());
                        }
                        o = &o[20 + ns + aux..];
                    }
                    if !o.is_empty() {
                        return mal("mld-trailing", "bytes after the last MLD record".into());
                    }
                }
                _ => {}
            }
        }
        Some(L4::Igmp(_)) => {
            if ip.hop != 1 {
                return mal("igmp-ttl", format!("IGMP with TTL {}", ip.hop));
            }
        }
        Some(L4::Udp(u)) => {
            if u.sport == 68 && u.dport == 67 {
                crate::dhcpdns::check_dhcp_wellformed(&u.payload).map_err(|m| viol("C10", "wellformed", format!("C10.semantic/dhcp:{}", strip_digits(&m)), format!("{} ; {}", m, pkt.summary())))?;
            }
            if u.dport == 53 || u.dport == 5353 {
                crate::dhcpdns::check_dns_wellformed(&u.payload).map_err(|m| viol("C10", "wellformed", format!("C10.semantic/dns:{}", strip_digits(&m)), format!("{} ; {}", m, pkt.summary())))?;
            }
        }
        _ => {}
    }
    let _ = view;
    Ok(())
}

pub fn hex(b: &[u8]) -> String {
    let mut s = String::with_capacity(b.len() * 2);
    for x in b.iter().take(400) {
        s += &format!("{:02x}", x);
    }
    if b.len() > 400 {
        s += "...";
    }
    s
}
pub fn strip_digits(s: &str) -> String {
    s.chars().filter(|c| !c.is_ascii_digit()).take(48).collect()
}
