//! Choice tape: the single source of nondeterminism of a run.
//!
//! Record mode draws from xoshiro256** seeded from the run seed and records every value.
//! Replay mode reads values from a stored tape (reduced modulo the bound); an exhausted tape
//! yields 0, which every drawing site treats as the "simplest" choice (no fault, no delay,
//! smallest size). Every generator in the harness is total over arbitrary tapes, so any edit of
//! a tape is again a valid run; that is what minimisation relies on.

#[derive(Clone)]
pub struct Xo {
    s: [u64; 4],
}

fn splitmix(x: &mut u64) -> u64 {
    *x = x.wrapping_add(0x9E3779B97F4A7C15);
    let mut z = *x;
    z = (z ^ (z >> 30)).wrapping_mul(0xBF58476D1CE4E5B9);
    z = (z ^ (z >> 27)).wrapping_mul(0x94D049BB133111EB);
    z ^ (z >> 31)
}

impl Xo {
    pub fn new(seed: u64) -> Xo {
        let mut x = seed;
        Xo {
            s: [
                splitmix(&mut x),
                splitmix(&mut x),
                splitmix(&mut x),
                splitmix(&mut x),
            ],
        }
    }
    pub fn next(&mut self) -> u64 {
        let r = self.s[1].wrapping_mul(5).rotate_left(7).wrapping_mul(9);
        let t = self.s[1] << 17;
        self.s[2] ^= self.s[0];
        self.s[3] ^= self.s[1];
        self.s[1] ^= self.s[2];
        self.s[0] ^= self.s[3];
        self.s[2] ^= t;
        self.s[3] = self.s[3].rotate_left(45);
        r
    }
}

pub struct Tape {
    rng: Option<Xo>,
    replay: Vec<u64>,
    pos: usize,
    pub rec: Vec<u64>,
    /// hard cap on the number of draws (safety net against runaway generators)
    pub max_draws: usize,
}

impl Tape {
    pub fn record(seed: u64) -> Tape {
        Tape {
            rng: Some(Xo::new(seed)),
            replay: Vec::new(),
            pos: 0,
            rec: Vec::new(),
            max_draws: 4_000_000,
        }
    }
    pub fn replay(t: Vec<u64>) -> Tape {
        Tape {
            rng: None,
            replay: t,
            pos: 0,
            rec: Vec::new(),
            max_draws: 4_000_000,
        }
    }
    /// Uniform-ish value in [0, n). n == 0 is treated as 1.
    pub fn draw(&mut self, n: u64) -> u64 {
        let n = n.max(1);
        if self.rec.len() >= self.max_draws {
            return 0;
        }
        let v = match &mut self.rng {
            Some(r) => r.next() % n,
            None => {
                let v = self.replay.get(self.pos).copied().unwrap_or(0) % n;
                self.pos += 1;
                v
            }
        };
        self.rec.push(v);
        v
    }
    /// True with probability num/den; false on an exhausted/zeroed tape.
    pub fn chance(&mut self, num: u64, den: u64) -> bool {
        if num == 0 {
            // still consume a draw so tapes stay aligned across configurations
            self.draw(den);
            return false;
        }
        self.draw(den) >= den.saturating_sub(num)
    }
    /// value in [lo, hi] inclusive, 0-draw gives lo
    pub fn range(&mut self, lo: u64, hi: u64) -> u64 {
        if hi <= lo {
            self.draw(1);
            return lo;
        }
        lo + self.draw(hi - lo + 1)
    }
    /// pick an element; draw 0 gives the first
    pub fn pick<'a, T>(&mut self, xs: &'a [T]) -> &'a T {
        let i = self.draw(xs.len() as u64) as usize;
        &xs[i]
    }
    /// A size biased toward small values and boundaries: draw 0 gives lo.
    pub fn size(&mut self, lo: u64, hi: u64) -> u64 {
        if hi <= lo {
            self.draw(1);
            return lo;
        }
        let k = self.draw(8);
        let span = hi - lo;
        match k {
            0 => {
                self.draw(1);
                lo
            }
            1 | 2 => lo + self.draw(span.min(16) + 1),
            3 | 4 => lo + self.draw(span.min(512) + 1),
            5 | 6 => lo + self.draw(span + 1),
            _ => hi - self.draw(span.min(4) + 1),
        }
    }
    pub fn draws(&self) -> usize {
        self.rec.len()
    }
}

/// 64-bit mixing function used for stream contents and hashes (murmur3 finaliser over a key).
#[inline]
pub fn mix64(key: u64, i: u64) -> u64 {
    let mut z = key ^ i.wrapping_mul(0x9E3779B97F4A7C15);
    z = (z ^ (z >> 33)).wrapping_mul(0xff51afd7ed558ccd);
    z = (z ^ (z >> 33)).wrapping_mul(0xc4ceb9fe1a85ec53);
    z ^ (z >> 33)
}

/// The byte at offset i of the stream identified by key (no short period).
#[inline]
pub fn stream_byte(key: u64, i: u64) -> u8 {
    (mix64(key, i) >> 56) as u8
}

/// Incremental FNV-1a/mix hash of the event log of a run (determinism proof, distinct-run count).
#[derive(Clone, Copy)]
pub struct LogHash(pub u64, pub u64);
impl LogHash {
    pub fn new() -> LogHash {
        LogHash(0xcbf29ce484222325, 0x9E3779B97F4A7C15)
    }
    pub fn u64(&mut self, v: u64) {
        self.0 = (self.0 ^ v).wrapping_mul(0x100000001b3);
        self.0 ^= self.0 >> 29;
        self.1 = mix64(self.1, v);
    }
    pub fn bytes(&mut self, b: &[u8]) {
        self.u64(b.len() as u64);
        for c in b.chunks(8) {
            let mut w = [0u8; 8];
            w[..c.len()].copy_from_slice(c);
            self.u64(u64::from_le_bytes(w));
        }
    }
    pub fn str(&mut self, s: &str) {
        self.bytes(s.as_bytes())
    }
    pub fn hex(&self) -> String {
        format!("{:016x}{:016x}", self.0, self.1)
    }
}
