//! Discrete-event world for two real nodes joined by a faulty link.

use crate::codec::{self, Medium, Packet, Verify};
use crate::core::*;
use crate::tap::{self, NodeView};
use crate::tape::{LogHash, Tape};
use std::cmp::Reverse;
use std::collections::BinaryHeap;

#[derive(Clone, Debug)]
pub enum Ev {
    /// corrupted: 0 intact, 1 checksum-detectable damage, 2 structurally impossible, 3 neutral damage,
    /// 4 UDP-over-IPv6 checksum field zeroed (detectable: "no checksum" exists for IPv4 only)
    Arrive { to: usize, frame: Vec<u8>, corrupted: u8, pkt: Option<Box<Packet>> },
    Deadline { node: usize, generation: u64 },
    App { node: usize },
    FaultEnd,
    Misc(u32),
}

#[derive(Clone, Debug, Default)]
pub struct DirProfile {
    /// per-mille rates
    pub drop: u64,
    pub dup: u64,
    pub corrupt: u64,
    pub swap: u64,
    pub big_delay: u64,
}

#[derive(Clone, Debug)]
pub struct LinkCfg {
    pub dir: [DirProfile; 2],
    pub base_us: i64,
    pub jitter_us: i64,
    /// partitions: (dir, start, end, hold)
    pub partitions: Vec<(usize, i64, i64, bool)>,
    pub fault_end: i64,
    pub profile_name: &'static str,
    /// corruption is only injected when the receiving node verifies every checksum in software
    pub corrupt_ok: [bool; 2],
    /// finer: which checksums (ipv4, udp, tcp, icmpv4, icmpv6) each node verifies in software on receive; when
    /// given, a frame is damaged only if the receiver verifies every checksum that covers that frame
    pub rx_verify: Option<[[bool; 5]; 2]>,
}

impl LinkCfg {
    pub fn clean(base_us: i64) -> LinkCfg {
        LinkCfg {
            dir: [DirProfile::default(), DirProfile::default()],
            base_us,
            jitter_us: 0,
            partitions: vec![],
            fault_end: 0,
            profile_name: "clean",
            corrupt_ok: [true, true],
            rx_verify: None,
        }
    }
    /// Swarm-style: a profile per run.
    pub fn draw(t: &mut Tape, max_fault_s: i64) -> LinkCfg {
        let base_us = *t.pick(&[1_000i64, 100, 10_000, 50_000, 200_000]);
        let prof = t.draw(10);
        let (name, mk): (&'static str, fn(&mut Tape) -> DirProfile) = match prof {
            0 => ("clean", |_t| DirProfile::default()),
            1 => ("light", |t| DirProfile { drop: t.range(0, 30), dup: t.range(0, 10), corrupt: t.range(0, 10), swap: t.range(0, 20), big_delay: t.range(0, 10) }),
            2 => ("heavy", |t| DirProfile { drop: t.range(50, 300), dup: t.range(0, 100), corrupt: t.range(0, 50), swap: t.range(0, 100), big_delay: t.range(0, 50) }),
            3 => ("dup-storm", |t| DirProfile { drop: t.range(0, 20), dup: t.range(200, 600), corrupt: 0, swap: t.range(0, 50), big_delay: t.range(0, 50) }),
            4 => ("reorder", |t| DirProfile { drop: 0, dup: 0, corrupt: 0, swap: t.range(100, 500), big_delay: t.range(20, 200) }),
            5 => ("corrupt", |t| DirProfile { drop: t.range(0, 20), dup: 0, corrupt: t.range(50, 300), swap: 0, big_delay: 0 }),
            6 => ("lossy", |t| DirProfile { drop: t.range(100, 500), dup: 0, corrupt: 0, swap: 0, big_delay: 0 }),
            7 => ("mixed", |t| DirProfile { drop: t.range(0, 150), dup: t.range(0, 150), corrupt: t.range(0, 30), swap: t.range(0, 150), big_delay: t.range(0, 100) }),
            8 => ("one-way", |t| DirProfile { drop: t.range(0, 400), dup: t.range(0, 200), corrupt: 0, swap: t.range(0, 200), big_delay: t.range(0, 100) }),
            _ => ("bursty", |t| DirProfile { drop: t.range(0, 50), dup: t.range(0, 50), corrupt: 0, swap: t.range(0, 50), big_delay: t.range(0, 30) }),
        };
        let d0 = mk(t);
        let mut d1 = mk(t);
        if name == "one-way" {
            d1 = DirProfile::default();
            if t.chance(1, 2) {
                return Self::finish(t, [d1, d0], base_us, name, max_fault_s);
            }
        }
        Self::finish(t, [d0, d1], base_us, name, max_fault_s)
    }
    fn finish(t: &mut Tape, dir: [DirProfile; 2], base_us: i64, name: &'static str, max_fault_s: i64) -> LinkCfg {
        let jitter_us = match t.draw(4) {
            0 => 0,
            1 => base_us / 2,
            2 => base_us * 3,
            _ => base_us * 20,
        };
        let fault_end = if name == "clean" { 0 } else { t.range(1, max_fault_s as u64 * 10) as i64 * 100_000 };
        let mut partitions = vec![];
        if name == "bursty" || t.chance(1, 8) {
            let n = t.range(1, 3);
            for _ in 0..n {
                let d = t.draw(3) as usize; // 2 = both
                let start = t.range(0, (fault_end.max(1) / 1000) as u64) as i64 * 1000;
                let len = *t.pick(&[50_000i64, 500_000, 3_000_000, 20_000_000, 90_000_000]);
                let hold = t.chance(1, 3);
                let end = (start + len).min(fault_end.max(start));
                if d == 2 {
                    partitions.push((0, start, end, hold));
                    partitions.push((1, start, end, hold));
                } else {
                    partitions.push((d, start, end, hold));
                }
            }
        }
        LinkCfg { dir, base_us, jitter_us, partitions, fault_end, profile_name: name, corrupt_ok: [true, true], rx_verify: None }
    }
    pub fn describe(&self) -> String {
        format!(
            "link[{} base={}us jitter={}us fault_end={}ms d0={:?} d1={:?} partitions={:?}]",
            self.profile_name,
            self.base_us,
            self.jitter_us,
            self.fault_end / 1000,
            self.dir[0],
            self.dir[1],
            self.partitions
        )
    }
}

pub struct World {
    pub now: i64,
    pub seq: u64,
    pub q: BinaryHeap<Reverse<(i64, u64)>>,
    pub evs: Vec<Option<Ev>>,
    pub nodes: Vec<Node>,
    pub views: Vec<NodeView>,
    pub link: LinkCfg,
    pub stats: Stats,
    pub hash: LogHash,
    pub trace: Vec<String>,
    pub trace_on: bool,
    pub props: Props,
    pub gens: [u64; 2],
    pub events: u64,
    /// a frame held back to be swapped with the next one, per direction
    swap_hold: [Option<(Vec<u8>, Option<Box<Packet>>)>; 2],
    /// rx verification capabilities of each node (for deciding admissible corruption)
    pub rx_verify_all: [bool; 2],
}

pub struct TxFrame {
    pub raw: Vec<u8>,
    pub pkt: Option<Packet>,
}

impl World {
    pub fn new(nodes: Vec<Node>, views: Vec<NodeView>, link: LinkCfg, props: Props, trace_on: bool) -> World {
        World {
            now: 0,
            seq: 0,
            q: BinaryHeap::new(),
            evs: vec![None],
            nodes,
            views,
            link,
            stats: Stats::default(),
            hash: LogHash::new(),
            trace: Vec::new(),
            trace_on,
            props,
            gens: [0, 0],
            events: 0,
            swap_hold: [None, None],
            rx_verify_all: [true, true],
        }
    }
    pub fn log(&mut self, f: impl FnOnce() -> String) {
        if self.trace_on && self.trace.len() < 4000 {
            let s = f();
            self.trace.push(format!("t={:>12.6}s {}", self.now as f64 / 1e6, s));
        }
    }
    pub fn schedule(&mut self, at: i64, ev: Ev) {
        self.seq += 1;
        self.evs.push(Some(ev));
        debug_assert!(self.evs.len() as u64 == self.seq + 1);
        self.q.push(Reverse((at.max(self.now), self.seq)));
    }
    pub fn pop(&mut self) -> Option<Ev> {
        let Reverse((at, seq)) = self.q.pop()?;
        let ev = self.evs[seq as usize].take().expect("event slot");
        debug_assert!(at >= self.now);
        self.now = at;
        self.events += 1;
        self.hash.u64(at as u64);
        self.hash.u64(seq);
        Some(ev)
    }
    pub fn faults_active(&self) -> bool {
        self.now < self.link.fault_end
    }

    /// Poll node n, run the always-on monitors on what it emits, push the frames into the link.
    pub fn poll_node(&mut self, n: usize, tape: &mut Tape) -> Result<(PollInfo, Vec<TxFrame>), Violation> {
        let info = self.nodes[n].poll(self.now)?;
        let frames = self.tap_and_send(n, &info, tape)?;
        Ok((info, frames))
    }
    pub fn tap_and_send(&mut self, n: usize, info: &PollInfo, tape: &mut Tape) -> Result<Vec<TxFrame>, Violation> {
        let mut out = Vec::with_capacity(info.tx.len());
        for raw in &info.tx {
            self.hash.bytes(raw);
            self.stats.inc("frames.tx");
            let pkt = tap::check_frame(self.props, &self.views[n], raw, &mut self.stats)?;
            if self.trace_on {
                let s = pkt.as_ref().map(|p| p.summary()).unwrap_or_else(|| format!("({} bytes)", raw.len()));
                let name = self.nodes[n].name;
                self.log(|| format!("{} tx {}", name, s));
            }
            out.push(TxFrame { raw: raw.clone(), pkt });
        }
        for f in &out {
            // Ethernet frames shorter than the 60-octet minimum are padded on their way (by the sending or the
            // receiving adapter), here with non-zero octets: whatever follows the IP total length / the ARP packet is
            // not part of the packet
            let mut raw = f.raw.clone();
            if self.views[n].medium == Medium::Ethernet && raw.len() < 60 && tape.chance(1, 3) {
                let mut k = 0u8;
                while raw.len() < 60 {
                    raw.push(0xe0 | (k & 0x0f));
                    k = k.wrapping_add(1);
                }
                self.stats.inc("link.ethernet-frames-padded-to-60-octets");
            }
            self.link_send(n, raw, f.pkt.clone().map(Box::new), tape);
        }
        Ok(out)
    }

    /// Decide the fate of a frame emitted by node `from` (direction index = from).
    pub fn link_send(&mut self, from: usize, frame: Vec<u8>, pkt: Option<Box<Packet>>, t: &mut Tape) {
        let to = 1 - from;
        let now = self.now;
        if now >= self.link.fault_end {
            // reliable, in-order phase
            if let Some((h, hp)) = self.swap_hold[from].take() {
                self.schedule(now + self.link.base_us, Ev::Arrive { to, frame: h, corrupted: 0, pkt: hp });
            }
            self.schedule(now + self.link.base_us, Ev::Arrive { to, frame, corrupted: 0, pkt });
            return;
        }
        // partitions
        for (d, s, e, hold) in self.link.partitions.clone() {
            if d == from && now >= s && now < e {
                if hold {
                    self.stats.inc("fault.partition-hold");
                    self.schedule(e + self.link.base_us, Ev::Arrive { to, frame, corrupted: 0, pkt });
                } else {
                    self.stats.inc("fault.partition-drop");
                    self.log(|| "link: dropped (partition)".into());
                }
                return;
            }
        }
        let p = self.link.dir[from].clone();
        let delay = |t: &mut Tape, w: &World| -> i64 {
            let j = if w.link.jitter_us > 0 { t.draw(w.link.jitter_us as u64 + 1) as i64 } else { 0 };
            w.link.base_us + j
        };
        if t.chance(p.drop, 1000) {
            self.stats.inc("fault.drop");
            self.log(|| "link: dropped".into());
            return;
        }
        if t.chance(p.corrupt, 1000) {
            let covered = match (&self.link.rx_verify, &pkt) {
                (Some(rv), Some(p)) => frame_checksums_verified(&rv[to], p),
                _ => self.link.corrupt_ok[to],
            };
            if covered {
                if let Some((c, class)) = corrupt(&frame, self.views[from].medium, t) {
                    self.stats.inc(if class == 1 {
                        "fault.corrupt-checksum-detectable"
                    } else if class == 5 {
                        "fault.corrupt-of-a-frame-that-left-with-a-bad-checksum"
                    } else if class == 4 {
                        "fault.corrupt-udp6-checksum-zeroed"
                    } else {
                        "fault.corrupt-neutral-or-structural"
                    });
                    let d = delay(t, self);
                    self.log(|| format!("link: corrupted (class {})", class));
                    // class 3 (damage in an unprotected, meaning-free field) is still the same packet
                    let pk = if class == 3 { pkt } else { None };
                    self.schedule(now + d, Ev::Arrive { to, frame: c, corrupted: class, pkt: pk });
                    return;
                }
            }
            self.stats.inc("fault.corrupt-degraded-to-drop");
            return;
        }
        if t.chance(p.swap, 1000) && self.swap_hold[from].is_none() {
            self.stats.inc("fault.swap");
            self.swap_hold[from] = Some((frame, pkt));
            // make sure a held frame is eventually released even if nothing follows
            self.schedule(now + self.link.base_us * 4 + 1000, Ev::Misc(from as u32));
            return;
        }
        let mut d = delay(t, self);
        if t.chance(p.big_delay, 1000) {
            self.stats.inc("fault.big-delay");
            d += *t.pick(&[50_000i64, 300_000, 1_500_000, 4_000_000]);
        }
        if t.chance(p.dup, 1000) {
            self.stats.inc("fault.dup");
            if t.draw(3) == 2 {
                // a burst of stale copies, much later (they overtake nothing but arrive after the
                // conversation has moved on: old ACKs / window values, old data)
                let k = 1 + t.draw(4) as i64;
                let late = *t.pick(&[50_000i64, 300_000, 1_000_000, 2_500_000, 6_000_000]);
                self.stats.inc("fault.dup-late-burst");
                for i in 0..k {
                    self.schedule(now + late + i * 1_000, Ev::Arrive { to, frame: frame.clone(), corrupted: 0, pkt: pkt.clone() });
                }
            } else {
                let d2 = delay(t, self) + t.draw(4) as i64 * self.link.base_us;
                self.schedule(now + d2, Ev::Arrive { to, frame: frame.clone(), corrupted: 0, pkt: pkt.clone() });
            }
        }
        self.schedule(now + d, Ev::Arrive { to, frame, corrupted: 0, pkt });
        if let Some((h, hp)) = self.swap_hold[from].take() {
            // the held frame goes right after this one
            self.schedule(now + d + 1, Ev::Arrive { to, frame: h, corrupted: 0, pkt: hp });
        }
    }
    /// Release a frame held for swapping (called on Ev::Misc(dir)).
    pub fn release_swap(&mut self, dir: usize) {
        if let Some((h, hp)) = self.swap_hold[dir].take() {
            let to = 1 - dir;
            let at = self.now + self.link.base_us;
            self.schedule(at, Ev::Arrive { to, frame: h, corrupted: 0, pkt: hp });
        }
    }

    /// Read poll_at of node n and (re)schedule its deadline event. Returns the deadline.
    pub fn refresh_deadline(&mut self, n: usize) -> Result<Option<i64>, Violation> {
        let d = self.nodes[n].poll_at(self.now)?;
        self.gens[n] += 1;
        if let Some(at) = d {
            let g = self.gens[n];
            self.schedule(at.max(self.now), Ev::Deadline { node: n, generation: g });
        }
        Ok(d)
    }
}

/// Damage a frame with 1 or 2 bit flips such that the damage is provably harmless to deliver:
/// class 1: the structure is intact and a checksum the receiver verifies provably fails
///          (C08 clause 3 applies: the frame must be equivalent to no frame);
/// class 2: structurally impossible lengths (any receiver must reject);
/// class 3: the result decodes to the same content (damage in a field no checksum protects and
///          that does not change meaning).
/// Otherwise None (the fate degrades to Drop): the Internet checksum cannot detect everything.
pub fn corrupt(frame: &[u8], medium: Medium, t: &mut Tape) -> Option<(Vec<u8>, u8)> {
    if medium == Medium::Ieee802154 {
        return None;
    }
    let l2 = if medium == Medium::Ethernet { 14 } else { 0 };
    if frame.len() <= l2 {
        return None;
    }
    let orig = match codec::decode_frame(medium, frame, &Verify::all()) {
        Ok(o) => o,
        // A frame that already fails the independent checksum verification as it leaves its sender exists only on
        // a defective tree (every check that owns C08 / C10 reports it at once). The network may damage such a
        // frame like any other: one bit near its end, delivered as a packet of unknown meaning (class 5) - if the
        // receiver's own verification lets it through, the stream / datagram oracles see the altered octet.
        Err(e) if e.kind == codec::ErrKind::Checksum && frame.len() > l2 + 28 => {
            let mut c = frame.to_vec();
            let back = 1 + t.draw(4) as usize;
            let at = c.len() - back;
            c[at] ^= 1 << t.draw(8);
            return Some((c, 5));
        }
        Err(_) => return None,
    };
    if orig.arp.is_some() {
        return None;
    }
    if orig.ip.as_ref().map(|i| i.is_fragment()).unwrap_or(false) {
        return None;
    }
    let mut c = frame.to_vec();
    // UDP over IPv6 with the checksum field zeroed: "no checksum" exists for IPv4 only, an independent
    // implementation does not verify it, so it is a class-1 frame as well
    if let (Some(ip), Some(codec::L4::Udp(_))) = (&orig.ip, &orig.l4) {
        if ip.v4.is_none() && ip.hdr_len == 40 && frame.len() >= l2 + 48 && t.draw(30) == 29 {
            c[l2 + 46] = 0;
            c[l2 + 47] = 0;
            return match lenient_decode(medium, &c) {
                Err(LenientErr::Checksum) => Some((c, 4)),
                _ => None,
            };
        }
    }
    // IPv4 with options: rewrite the (valid) packet so that it carries 4 or 8 option octets (header length,
    // total length and header checksum adjusted), then damage one bit inside the options: the header checksum
    // covers them, so this is class 1 as well
    if let Some(ip) = &orig.ip {
        if ip.v4.is_some() && ip.hdr_len == 20 && frame.len() >= l2 + 20 && t.draw(10) == 9 {
            // (all-zero options add nothing to the one's-complement sum: a verification that covered only the
            // first 20 octets would still pass before and after the damage)
            let opts: &[u8] = match t.draw(5) {
                0 => &[1, 1, 1, 0],
                1 => &[0x94, 4, 0, 0],
                2 => &[1, 1, 1, 1, 0x94, 4, 0, 0],
                3 => &[0, 0, 0, 0],
                _ => &[0, 0, 0, 0, 0, 0, 0, 0],
            };
            let mut w = frame[..l2 + 20].to_vec();
            w.extend_from_slice(opts);
            w.extend_from_slice(&frame[l2 + 20..]);
            w[l2] = 0x40 | ((20 + opts.len()) / 4) as u8;
            let tl = (((frame[l2 + 2] as usize) << 8) | frame[l2 + 3] as usize) + opts.len();
            w[l2 + 2] = (tl >> 8) as u8;
            w[l2 + 3] = tl as u8;
            w[l2 + 10] = 0;
            w[l2 + 11] = 0;
            let cs = codec::inet_csum(&w[l2..l2 + 20 + opts.len()], 0);
            w[l2 + 10] = (cs >> 8) as u8;
            w[l2 + 11] = cs as u8;
            if lenient_decode(medium, &w).is_ok() {
                let pos = l2 + 20 + t.draw(opts.len() as u64) as usize;
                w[pos] ^= 1 << t.draw(8);
                return match lenient_decode(medium, &w) {
                    Err(LenientErr::Checksum) => Some((w, 1)),
                    _ => None,
                };
            }
            return None;
        }
    }
    let nbits = 1 + t.draw(2);
    for _ in 0..nbits {
        let pos = l2 + t.draw((frame.len() - l2) as u64) as usize;
        let bit = t.draw(8) as u8;
        c[pos] ^= 1 << bit;
    }
    if c == frame {
        return None;
    }
    let ob = orig.ip.as_ref().unwrap();
    match lenient_decode(medium, &c) {
        // random flips that happen to zero a UDP-over-IPv6 checksum field are the targeted class 4
        Err(LenientErr::Checksum) if c.len() >= l2 + 48 && c[l2] >> 4 == 6 && c[l2 + 6] == codec::P_UDP && c[l2 + 46] == 0 && c[l2 + 47] == 0 => Some((c, 4)),
        Err(LenientErr::Checksum) => Some((c, 1)),
        Err(LenientErr::Structure) => Some((c, 2)),
        Ok(l) => {
            // decodes and every checksum verifies: only admissible if semantically identical
            let same = l.src == ob.src && l.dst == ob.dst && l.proto == ob.proto && l.payload == ob.payload && !l.fragment && l.hop > 1 && l.hdr == masked_hdr(ob.v4.is_some(), &frame[l2..l2 + ob.hdr_len.min(frame.len() - l2)]);
            if same {
                Some((c, 3))
            } else {
                None
            }
        }
    }
}

/// Header bytes whose value does not change the meaning of the packet for a receiver are zeroed:
/// IPv4 TOS, TTL and the header checksum (re-verified separately); IPv6 traffic class, flow
/// label and hop limit.
fn masked_hdr(v4: bool, h: &[u8]) -> Vec<u8> {
    let mut hdr = h.to_vec();
    if v4 {
        for k in [1usize, 8, 10, 11] {
            if k < hdr.len() {
                hdr[k] = 0;
            }
        }
    } else {
        for k in [1usize, 2, 3, 7] {
            if k < hdr.len() {
                hdr[k] = 0;
            }
        }
        if !hdr.is_empty() {
            hdr[0] &= 0xf0;
        }
    }
    hdr
}

pub struct Lenient {
    pub src: codec::IpAddr,
    pub dst: codec::IpAddr,
    pub proto: u8,
    pub hop: u8,
    pub fragment: bool,
    /// header bytes with the meaning-free ones zeroed
    pub hdr: Vec<u8>,
    pub payload: Vec<u8>,
}

pub enum LenientErr {
    Checksum,
    Structure,
}

/// Decode accepting everything a receiver could conceivably accept: the only errors are a
/// checksum that provably fails and structurally impossible lengths (which any receiver must
/// reject because honouring them would read outside the buffer). No policy checks: a frame this
/// function accepts might be accepted by the stack, so it is only delivered when its content is
/// identical to the original.
pub fn lenient_decode(medium: Medium, b: &[u8]) -> Result<Lenient, LenientErr> {
    use LenientErr::*;
    let ipb = match medium {
        Medium::Ethernet => {
            if b.len() < 14 {
                return Err(Structure);
            }
            let et = ((b[12] as u16) << 8) | b[13] as u16;
            if et != codec::ETH_IPV4 && et != codec::ETH_IPV6 {
                return Err(Structure);
            }
            if b.len() == 14 || (et == codec::ETH_IPV4) != (b[14] >> 4 == 4) || (et == codec::ETH_IPV6) != (b[14] >> 4 == 6) {
                return Err(Structure);
            }
            &b[14..]
        }
        _ => b,
    };
    if ipb.is_empty() {
        return Err(Structure);
    }
    let ver = ipb[0] >> 4;
    let l = match ver {
        4 => {
            if ipb.len() < 20 {
                return Err(Structure);
            }
            let ihl = (ipb[0] & 0xf) as usize * 4;
            let tl = ((ipb[2] as usize) << 8) | ipb[3] as usize;
            if ihl < 20 || ihl > ipb.len() || tl < ihl || tl > ipb.len() {
                return Err(Structure);
            }
            if !codec::verifies(&ipb[..ihl], 0) {
                return Err(Checksum);
            }
            let fl = ((ipb[6] as u16) << 8) | ipb[7] as u16;
            let mut src = [0; 4];
            src.copy_from_slice(&ipb[12..16]);
            let mut dst = [0; 4];
            dst.copy_from_slice(&ipb[16..20]);
            let hdr = masked_hdr(true, &ipb[..ihl]);
            Lenient { src: codec::IpAddr::V4(src), dst: codec::IpAddr::V4(dst), proto: ipb[9], hop: ipb[8], fragment: fl & 0x3fff != 0, hdr, payload: ipb[ihl..tl].to_vec() }
        }
        6 => {
            let ip = codec::decode_ipv6(ipb, false).map_err(|_| Structure)?;
            let hdr = masked_hdr(false, &ipb[..ip.hdr_len]);
            Lenient { src: ip.src, dst: ip.dst, proto: ip.proto, hop: ip.hop, fragment: false, hdr, payload: ip.payload }
        }
        _ => return Err(Structure),
    };
    if l.fragment {
        return Ok(l);
    }
    let p = &l.payload;
    match l.proto {
        codec::P_TCP => {
            if p.len() < 20 {
                return Err(Structure);
            }
            let doff = (p[12] >> 4) as usize * 4;
            if doff < 20 || doff > p.len() {
                return Err(Structure);
            }
            if !codec::verifies(p, codec::pseudo(&l.src, &l.dst, codec::P_TCP, p.len())) {
                return Err(Checksum);
            }
        }
        codec::P_UDP => {
            if p.len() < 8 {
                return Err(Structure);
            }
            let ul = ((p[4] as usize) << 8) | p[5] as usize;
            if ul < 8 || ul > p.len() {
                return Err(Structure);
            }
            let c = ((p[6] as u16) << 8) | p[7] as u16;
            if c == 0 {
                if !l.src.is_v4() {
                    return Err(Checksum);
                }
            } else if !codec::verifies(&p[..ul], codec::pseudo(&l.src, &l.dst, codec::P_UDP, ul)) {
                return Err(Checksum);
            }
            if ul != p.len() {
                // trailing bytes ignored by a receiver: content differs from the original
                let mut l2 = l;
                l2.payload.truncate(ul);
                return Ok(l2);
            }
        }
        codec::P_ICMP if l.src.is_v4() => {
            if p.len() < 4 {
                return Err(Structure);
            }
            if !codec::verifies(p, 0) {
                return Err(Checksum);
            }
        }
        codec::P_ICMP6 if !l.src.is_v4() => {
            if p.len() < 4 {
                return Err(Structure);
            }
            if !codec::verifies(p, codec::pseudo(&l.src, &l.dst, codec::P_ICMP6, p.len())) {
                return Err(Checksum);
            }
        }
        _ => {}
    }
    Ok(l)
}

/// Does a receiver with these software verifications (ipv4, udp, tcp, icmpv4, icmpv6) check every checksum that
/// covers this frame?
fn frame_checksums_verified(v: &[bool; 5], p: &Packet) -> bool {
    let all = v.iter().all(|x| *x);
    let Some(ip) = &p.ip else { return all };
    if matches!(ip.src, crate::codec::IpAddr::V4(_)) && !v[0] {
        return false;
    }
    match &p.l4 {
        Some(crate::codec::L4::Udp(_)) => v[1],
        Some(crate::codec::L4::Tcp(_)) => v[2],
        Some(crate::codec::L4::Icmp4(_)) => v[3],
        Some(crate::codec::L4::Icmp6(_)) => v[4],
        _ => all,
    }
}
