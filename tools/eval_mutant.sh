#!/bin/bash
# Maintenance tool (not a registered check): apply a seeded change to /repo, run the named checks with a
# budget, print one line per check, and restore /repo.  Evidence of these runs goes to a scratch directory.
# usage: tools/eval_mutant.sh <patch.diff> <budget_s> <check id>...
set -u
patch=$(readlink -f "$1"); budget=$2; shift 2
if ! git -C /repo diff --quiet; then echo "refusing: /repo has uncommitted changes"; exit 2; fi
git -C /repo apply "$patch" || { echo "patch does not apply"; exit 2; }
trap 'git -C /repo checkout -- .' EXIT
scratch=$(mktemp -d /tmp/mutant-evidence.XXXXXX)
for c in "$@"; do
  out=$(cd /verif && VERIF_EVIDENCE_DIR=$scratch VERIF_BUDGET_S=$budget ./check "$c" quick 2>&1)
  rc=$?
  v=$(echo "$out" | grep -m1 'violation in run' | sed 's/^\[[A-Z0-9]*\] //' | cut -c1-260)
  runs=$(echo "$out" | grep -o '[0-9]* runs' | tail -1)
  echo "$c rc=$rc ($runs) $v"
done
rm -rf "$scratch"
