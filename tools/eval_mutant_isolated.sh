#!/bin/bash
# Maintenance tool: like eval_mutant.sh but without touching /repo, for use while a background campaign is
# rebuilding from /repo: the seeded change is applied in a scratch worktree of /repo and a scratch copy of the
# simulator crate is built against it.  Everything lives under /tmp/mut-iso and can be deleted at any time.
# usage: tools/eval_mutant_isolated.sh <patch.diff> <budget_s> <check id>...
set -u
patch=$(readlink -f "$1"); budget=$2; shift 2
ISO=${ISO:-/tmp/mut-iso}
mkdir -p $ISO
if [ ! -d $ISO/repo ]; then git -C /repo worktree add --detach $ISO/repo HEAD -q || exit 2; fi
git -C $ISO/repo checkout -q --detach $(git -C /repo rev-parse HEAD) && git -C $ISO/repo checkout -- . || exit 2
git -C $ISO/repo apply "$patch" || { echo "patch does not apply"; exit 2; }
mkdir -p $ISO/root/sim $ISO/root/replays
rsync -a --delete --exclude target --exclude target-wide --exclude build.log ${SIM_SRC:-/verif/sim}/ $ISO/root/sim/
sed -i "s#path = \"/repo\"#path = \"$ISO/repo\"#" $ISO/root/sim/Cargo.toml
cp /verif/known_findings.json $ISO/root/; rsync -a /verif/findings $ISO/root/
BINDIR=$ISO/root/sim/target/release
if [ "${VARIANT:-shipped}" = wide ]; then
  # same capacities as the thorough tier's wide build
  export SMOLTCP_IFACE_MAX_ADDR_COUNT=5 SMOLTCP_IFACE_NEIGHBOR_CACHE_COUNT=3 SMOLTCP_REASSEMBLY_BUFFER_COUNT=4 \
         SMOLTCP_DNS_MAX_SERVER_COUNT=3 SMOLTCP_DNS_MAX_RESULT_COUNT=4 SMOLTCP_ASSEMBLER_MAX_SEGMENT_COUNT=32 \
         SMOLTCP_IFACE_MAX_ROUTE_COUNT=4 SMOLTCP_IFACE_MAX_PREFIX_COUNT=2 SMOLTCP_IFACE_MAX_MULTICAST_GROUP_COUNT=8
  export CARGO_TARGET_DIR=$ISO/root/sim/target-wide
  BINDIR=$ISO/root/sim/target-wide/release
fi
( cd $ISO/root/sim && CARGO_NET_OFFLINE=true cargo build --release --offline > $ISO/build.log 2>&1 ) || { echo "build failed"; tail -5 $ISO/build.log; git -C $ISO/repo checkout -- .; exit 2; }
for c in "$@"; do
  out=$(cd $ISO/root && VERIF_ROOT=$ISO/root VERIF_EVIDENCE_DIR=$ISO/evidence VERIF_BUDGET_S=$budget $BINDIR/simcheck run "$c" --tier quick 2>&1)
  rc=$?
  v=$(echo "$out" | grep -m1 'violation in run' | sed 's/^\[[A-Z0-9]*\] //' | cut -c1-260)
  echo "$c rc=$rc $v"; [ -z "$v" ] && [ $rc -ne 0 ] && echo "$out" | tail -5
done
git -C $ISO/repo checkout -- .
