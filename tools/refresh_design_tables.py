#!/usr/bin/env python3
"""Regenerates the tables of DESIGN.md section 12.3 / 12.4 from known_findings.json."""
import json, re
d = json.load(open('/verif/known_findings.json'))
rows = ["| property | commit | what failed |", "|---|---|---|"]
for f in d['fixed']:
    parts = f.split(' ', 3)
    rows.append("| %s | `%s` | %s |" % (parts[1].split('=')[1], parts[2], parts[3].replace('|', '/')))
kf = ["* **%s** `%s` — %s Replay: `%s`." % (f['property'], f['signature'], f['what'], f['replay']) for f in d['findings']]
p = '/verif/DESIGN.md'
s = open(p).read()
s = re.sub(r'<!-- FIXED-TABLE-BEGIN -->.*?<!-- FIXED-TABLE-END -->', lambda m: '<!-- FIXED-TABLE-BEGIN -->\n' + '\n'.join(rows) + '\n<!-- FIXED-TABLE-END -->', s, flags=re.S)
s = re.sub(r'<!-- KNOWN-LIST-BEGIN -->.*?<!-- KNOWN-LIST-END -->', lambda m: '<!-- KNOWN-LIST-BEGIN -->\n' + '\n'.join(kf) + '\n<!-- KNOWN-LIST-END -->', s, flags=re.S)
s = re.sub(r'the defects found \(\d+ repaired with `fix:` commits, \d+ listed as', 'the defects found (%d repaired with `fix:` commits, %d listed as' % (len(d['fixed']), len(d['findings'])), s)
open(p, 'w').write(s)
print(len(d['fixed']), 'fixed,', len(d['findings']), 'known findings')
