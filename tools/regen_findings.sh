#!/bin/bash
# Maintenance tool: after a change of the scenario generators the stored tapes of the known findings mean
# something else; this hunts each listed signature again (VERIF_TARGET_SIG) and stores the minimised replay
# under the same name.  The list of findings itself (known_findings.json) is not touched.
cd /verif
( cd sim && CARGO_NET_OFFLINE=true cargo build --release --offline >/dev/null 2>&1 ) || exit 2
python3 - <<'PY'
import json,subprocess,re,shutil,os
d=json.load(open('known_findings.json'))
env=dict(os.environ, VERIF_ROOT='/verif', VERIF_EVIDENCE_DIR='/tmp/regen-evidence', VERIF_BUDGET_S='120')
for f in d['findings']:
    e=dict(env, VERIF_TARGET_SIG=f['signature'])
    out=subprocess.run(['./sim/target/release/simcheck','run',f['property']],capture_output=True,text=True,env=e).stdout
    m=re.search(r'VIOLATION property=\S+ replay=(\S+)',out)
    if not m:
        print('NOT FOUND', f['signature']); continue
    shutil.copy(m.group(1), f['replay'])
    print('regenerated', f['replay'])
PY
