#!/bin/bash
# Maintenance tool: run every seeded change under /verif/seeded against the check of its property (and the
# related checks named below) and print a table.  Not a registered check; leaves /repo clean.
# usage: tools/sensitivity.sh [budget_s]   (default 30)
budget=${1:-30}
cd /verif
declare -A extra=( [C01]="C04" [C03]="" [C04]="C01" [C05]="" [C09]="C12" [C10]="C11" )
for d in seeded/C*/[a-d]; do
  id=$(basename $(dirname $d)); m=$(basename $d)
  [ -f $d/patch.diff ] || continue
  echo "## $id/$m: $(python3 -c "import json;print(json.load(open('$d/meta.json')).get('summary','')[:160])" 2>/dev/null)"
  tools/eval_mutant_isolated.sh $d/patch.diff $budget $id ${extra[$id]:-}
done
