#!/bin/bash
# Maintenance tool: run every seeded change under /verif/seeded against the check of its property (and the
# related checks named below) and print a table.  Not a registered check; leaves /repo clean.
# usage: tools/sensitivity.sh [budget_s]   (default 30)
budget=${1:-30}
cd /verif
declare -A extra=( [C01]="C04" [C03]="" [C04]="C01" [C05]="" [C09]="C12" [C10]="C11" )
for d in seeded/C*/[a-j]; do
  id=$(basename $(dirname $d)); m=$(basename $d)
  [ -f $d/patch.diff ] || continue
  echo "## $id/$m: $(python3 -c "import json;print(json.load(open('$d/meta.json')).get('summary','')[:160])" 2>/dev/null)"
  # only the check of the change's own property by default; SENS_EXTRA=1 adds the related checks
  if [ "${SENS_EXTRA:-0}" = 1 ]; then tools/eval_mutant_isolated.sh $d/patch.diff $budget $id ${extra[$id]:-}; else tools/eval_mutant_isolated.sh $d/patch.diff $budget $id; fi
done
