#!/bin/bash
# Maintenance tool: every committed replay of a listed known finding must still reproduce its signature.
cd /verif
python3 - <<'PY'
import json,subprocess
d=json.load(open('known_findings.json'))
bad=0
for f in d['findings']:
    out=subprocess.run(['./check','replay',f['replay']],capture_output=True,text=True).stdout
    sig=[l for l in out.splitlines() if l.startswith('signature:')]
    ok = sig and sig[0].split(':',1)[1].strip()==f['signature']
    print(('ok   ' if ok else 'STALE'), f['property'], f['signature'], '->', sig[0] if sig else 'no violation reproduced')
    bad += (not ok)
raise SystemExit(1 if bad else 0)
PY
